#!/bin/sh
# setup_cmd: offline sanity check of the toolchain + pre-build of both extension variants.
set -e
cd "$(dirname "$0")"
export PYTHONDONTWRITEBYTECODE=1
test -x /venv/bin/python || { echo "missing /venv/bin/python"; exit 1; }
command -v gcc >/dev/null || { echo "missing gcc"; exit 1; }
mkdir -p .cache .run evidence replays
/venv/bin/python -m mc.build rel
if command -v clang >/dev/null; then /venv/bin/python -m mc.build asan || echo "warning: asan variant did not build"; fi
/venv/bin/python -c "
import os, sys
sys.path.insert(0, '.')
from mc import build, boot
boot.install(build.ext_path('rel'))
import traits.api
print('setup ok: traits', traits.__version__, 'from', traits.__file__)
"
