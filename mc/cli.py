"""./check <Cxx> [--tier quick|thorough] [--replay FILE] [--variant rel|asan]

Orchestrates one property check: builds the extension from /repo's working
tree, runs the driver's shards in crash-contained worker processes, unions
the results, matches violations against KNOWN_FINDINGS.txt, writes evidence.

exit 0: property held on everything explored (known findings are printed)
exit 1: VIOLATION property=<id> replay=<path>
exit 2: harness problem (vacuous exploration, nondeterminism, build failure)
"""
import argparse
import hashlib
import importlib
import json
import os
import shutil
import subprocess
import sys
import time

VERIF = os.path.dirname(os.path.dirname(os.path.abspath(__file__)))
sys.path.insert(0, VERIF)

from mc import build, evidence, findings  # noqa: E402

PROPS = {
    "C01": "c01_domain", "C02": "c02_notify", "C03": "c03_fast",
    "C04": "c04_containers", "C05": "c05_list", "C06": "c06_dict",
    "C07": "c07_set", "C08": "c08_observe", "C09": "c09_register",
    "C10": "c10_defaults", "C11": "c11_delegate", "C12": "c12_property",
    "C13": "c13_names", "C14": "c14_copy", "C15": "c15_dsl",
    "C16": "c16_legacy", "C17": "c17_adapt", "C18": "c18_memory",
    "C19": "c19_faults", "C20": "c20_sync",
}


def worker_env(ext, variant):
    env = dict(os.environ)
    env["PYTHONHASHSEED"] = "0"
    env["PYTHONDONTWRITEBYTECODE"] = "1"
    env["VERIF_EXT"] = ext
    env["PYTHONPATH"] = VERIF
    env.pop("ENTHOUGHT_TRAITS_VERIF", None)
    env["ETS_TOOLKIT"] = "null"
    if variant == "asan":
        env["LD_PRELOAD"] = build.asan_runtime()
        env["PYTHONMALLOC"] = "malloc"
        env["ASAN_OPTIONS"] = ("detect_leaks=0:halt_on_error=1:"
                               "abort_on_error=1:allocator_may_return_null=1")
        env["UBSAN_OPTIONS"] = "print_stacktrace=1:halt_on_error=1"
    return env


class Job:
    def __init__(self, idx, shard):
        self.idx = idx
        self.shard = shard
        self.proc = None
        self.start = None
        self.journal = False
        self.attempt = 0


def run_shards(prop, modname, shards, tier, seed, ext, variant, rundir,
               timeout, jobs):
    """Run every shard in its own subprocess, at most `jobs` at a time.
    Returns (results, crashes) where crashes are violation-like records."""
    env = worker_env(ext, variant)
    pending = [Job(i, s) for i, s in enumerate(shards)]
    # seed rotates execution order only; the covered set is identical
    if pending:
        r = seed % len(pending)
        pending = pending[r:] + pending[:r]
    running, results, crashes, notes, skipped = [], {}, [], [], []

    def launch(job):
        base = os.path.join(rundir, "s%04d" % job.idx)
        with open(base + ".in", "w") as f:
            json.dump({"prop": prop, "shard": job.shard, "tier": tier,
                       "seed": seed}, f)
        for suffix in (".out", ".out.states", ".out.nontriv"):
            if os.path.exists(base + suffix):
                os.remove(base + suffix)
        cmd = [sys.executable, "-m", "mc.worker", modname, base + ".in",
               base + ".out"]
        if job.journal:
            cmd.append(base + ".journal")
        job.log = open(base + ".log", "w")
        job.proc = subprocess.Popen(cmd, cwd=VERIF, env=env, stdout=job.log,
                                    stderr=subprocess.STDOUT)
        job.start = time.time()
        job.attempt += 1

    while pending or running:
        while pending and len(running) < jobs:
            j = pending.pop(0)
            launch(j)
            running.append(j)
        time.sleep(0.02)
        for j in list(running):
            rc = j.proc.poll()
            timed_out = False
            if rc is None:
                if time.time() - j.start > timeout:
                    j.proc.kill()
                    j.proc.wait()
                    rc = -9
                    timed_out = True
                else:
                    continue
            running.remove(j)
            j.log.close()
            base = os.path.join(rundir, "s%04d" % j.idx)
            if rc == 0 and os.path.exists(base + ".out"):
                with open(base + ".out") as f:
                    results[j.idx] = json.load(f)
                results[j.idx]["_base"] = base
                continue
            with open(base + ".log", errors="replace") as f:
                tail = f.read()[-4000:]
            if rc == 3:
                # worker signalled a harness error explicitly
                sys.stderr.write(tail)
                raise SystemExit(2)
            if not j.journal:
                # re-run once in journal mode to pin the failing case
                notes.append("shard %d died (rc=%s%s); re-running in journal"
                             " mode" % (j.idx, rc,
                                        ", timeout" if timed_out else ""))
                j.journal = True
                j.first_rc = rc
                j.first_timeout = timed_out
                pending.insert(0, j)
                continue
            case = None
            try:
                with open(base + ".journal") as f:
                    case = json.load(f)
            except Exception:
                pass
            if case is None and "Traceback" in tail and rc == 1:
                # python-level exception in the harness itself
                sys.stderr.write(tail)
                sys.stderr.write("\nharness error in shard %r\n" % (j.shard,))
                raise SystemExit(2)
            kind = "hang" if timed_out else "crash"
            if timed_out and pending:
                notes.append("confirmed hang: %d remaining shard(s) skipped"
                             % len(pending))
                skipped.extend(pending)
                del pending[:]
            crashes.append({
                "sig": "%s:%s" % (kind, json.dumps(case, sort_keys=True,
                                                   default=repr)[:300]),
                "msg": "worker %s (rc=%s) while executing the journalled case"
                       % (kind, rc),
                "count": 1,
                "record": {"case": case, "shard": j.shard, "rc": rc,
                           "log_tail": tail[-1500:], "kind": kind},
            })
    if skipped:
        notes.append("cap: exploration cut short after a confirmed hang")
    return results, crashes, notes


def main(argv=None):
    ap = argparse.ArgumentParser()
    ap.add_argument("prop")
    ap.add_argument("--tier", default=os.environ.get("VERIF_TIER", "quick"),
                    choices=["quick", "thorough"])
    ap.add_argument("--replay")
    ap.add_argument("--variant", default=None, choices=["rel", "asan"])
    ap.add_argument("--jobs", type=int,
                    default=int(os.environ.get("VERIF_JOBS", "16")))
    ap.add_argument("--only", help="substring filter on shard repr (debug)")
    ap.add_argument("--keep", action="store_true")
    a = ap.parse_args(argv)
    prop = a.prop.upper()
    if prop not in PROPS:
        raise SystemExit("unknown property " + prop)
    seed = int(os.environ.get("VERIF_SEED", "0") or 0)
    t0 = time.time()
    modname = PROPS[prop]
    build.prune()
    ext = build.ext_path("rel")
    os.environ["VERIF_EXT"] = ext
    os.environ.setdefault("PYTHONHASHSEED", "0")
    from mc import boot
    boot.install(ext)
    mod = importlib.import_module("props." + modname)
    variant = a.variant or getattr(mod, "VARIANT", "rel")
    wext = build.ext_path(variant)

    if a.replay:
        with open(a.replay) as f:
            rec = json.load(f)
        if rec.get("variant", "rel") != "rel" or variant != "rel":
            env = worker_env(wext, variant)
            p = subprocess.run([sys.executable, "-m", "mc.replay_worker",
                                modname, a.replay], cwd=VERIF, env=env)
            raise SystemExit(1 if p.returncode else 0)
        ok = mod.replay(rec)
        print("replay:", "property holds" if ok else "VIOLATION reproduced")
        raise SystemExit(0 if ok else 1)

    rundir = os.path.join(VERIF, ".run", "%s-%s-%d" % (prop, a.tier,
                                                       os.getpid()))
    shutil.rmtree(rundir, ignore_errors=True)
    os.makedirs(rundir)
    shards = mod.shards(a.tier)
    if a.only:
        shards = [s for s in shards if a.only in repr(s)]
    # horizon per shard (a shard normally takes seconds to a few minutes); a
    # shard that exceeds it is re-run once in journal mode and, if it hangs
    # again, reported as a violation and the remaining shards are skipped
    cap = 300 if a.tier == "quick" else 2400
    timeout = min(getattr(mod, "TIMEOUT", {}).get(a.tier, cap), cap)
    timeout = int(os.environ.get("VERIF_SHARD_TIMEOUT", timeout))
    results, crashes, notes = run_shards(
        prop, modname, shards, a.tier, seed, wext, variant, rundir, timeout,
        a.jobs)

    # ---- union ----------------------------------------------------------
    states, nontriv = set(), set()
    tot = {"evaluations": 0, "transitions": 0}
    outcomes, extra, samples, viols = {}, {}, [], {}
    cap_hit, depth = any(n.startswith("cap:") for n in notes), None
    for idx in sorted(results):
        r = results[idx]
        for key, acc in ((".out.states", states), (".out.nontriv", nontriv)):
            with open(r["_base"] + key, "rb") as f:
                b = f.read()
            acc.update(b[i:i + 8] for i in range(0, len(b), 8))
        tot["evaluations"] += r["evaluations"]
        tot["transitions"] += r["transitions"]
        for k, v in r["outcomes"].items():
            outcomes[k] = outcomes.get(k, 0) + v
        for k, v in r["extra"].items():
            extra[k] = extra.get(k, 0) + v
        if len(samples) < 5:
            samples.extend(r["samples"][:1])
        cap_hit = cap_hit or r["cap_hit"]
        if r["depth_completed"] is not None:
            depth = (r["depth_completed"] if depth is None
                     else min(depth, r["depth_completed"]))
        for v in r["violations"]:
            if v["sig"] in viols:
                viols[v["sig"]]["count"] += v["count"]
            else:
                viols[v["sig"]] = v
    for c in crashes:
        viols[c["sig"]] = c

    # ---- classify violations -------------------------------------------
    known = findings.load()
    reported, known_hit = [], {}
    for sig in sorted(viols):
        v = viols[sig]
        k = findings.match(known, prop, v)
        if k is not None:
            known_hit.setdefault(k["slug"], [k, 0])[1] += v["count"]
        else:
            reported.append(v)
    rdir = os.environ.get("VERIF_REPLAY_DIR") or os.path.join(VERIF, "replays")
    os.makedirs(rdir, exist_ok=True)
    lines = []
    for slug, (k, n) in sorted(known_hit.items()):
        lines.append("KNOWN-FINDING: property=%s %s [%s; %d witnesses this run]"
                     % (prop, k["text"], slug, n))
    # ---- confirm by replay: a violation must reproduce from its recorded
    # case in a fresh process before it is believed (crashes and hangs were
    # already reproduced by the journal re-run)
    confirmed, dropped = [], 0
    for i, v in enumerate(reported):
        kind = v["record"].get("kind")
        if kind in ("crash", "hang") or i >= 3 or \
                os.environ.get("VERIF_NO_CONFIRM"):
            confirmed.append(v)
            continue
        rec = dict(v["record"])
        rec.update({"property": prop, "sig": v["sig"], "msg": v["msg"],
                    "variant": variant})
        tmpf = os.path.join(rundir, "confirm-%d.json" % i)
        with open(tmpf, "w") as f:
            json.dump(rec, f, default=repr)
        try:
            p = subprocess.run([sys.executable, "-m", "mc.replay_worker",
                                modname, tmpf], cwd=VERIF,
                               env=worker_env(wext, variant),
                               capture_output=True, text=True, timeout=600)
            reproduced = p.returncode == 1 and "VIOLATION reproduced" in \
                p.stdout
            crashed = p.returncode not in (0, 1)
        except subprocess.TimeoutExpired:
            reproduced, crashed = False, True
        if reproduced or crashed:
            confirmed.append(v)
        else:
            dropped += 1
            notes.append("violation %s did not reproduce on replay; dropped"
                         % v["sig"][:80])
    nondeterministic = bool(reported) and not confirmed
    reported = confirmed
    for v in reported[:25]:
        rec = dict(v["record"])
        rec.update({"property": prop, "sig": v["sig"], "msg": v["msg"],
                    "seed": seed, "tier": a.tier, "variant": variant,
                    "count": v["count"]})
        hh = hashlib.sha1(v["sig"].encode()).hexdigest()[:10]
        path = os.path.join(rdir, "%s-%s.json" % (prop, hh))
        with open(path, "w") as f:
            json.dump(rec, f, indent=1, default=repr)
        lines.append("VIOLATION property=%s replay=%s" % (prop, path))
        lines.append("  # %s  (x%d)  %s" % (v["sig"][:160], v["count"],
                                             v["msg"][:300]))

    # ---- vacuity guard --------------------------------------------------
    vac = []
    for need in getattr(mod, "MIN_OUTCOMES", {}).get(a.tier, ()):
        if not outcomes.get(need):
            vac.append(need)
    wall = time.time() - t0
    level = getattr(mod, "LEVEL", "model_checking")
    cov = {
        "states": len(states),
        "transitions": tot["transitions"],
        "traces_validated_against_impl": tot["evaluations"],
        "evaluations": tot["evaluations"],
        "distinct_nontrivial": len(nontriv),
        "rule": getattr(mod, "RULE", ""),
        "samples": samples or ["<none>"],
        "distinct_outcome_classes": len(outcomes),
        "outcomes": outcomes,
        "shards": len(shards),
        "depth_completed": depth,
        "cap_hit": cap_hit,
        "exhaustive": (not cap_hit) and not a.only,
        "explanation": getattr(mod, "EXPLANATION", ""),
        "bounds": getattr(mod, "BOUNDS", {}).get(a.tier, ""),
        "known_findings_seen": sorted(known_hit),
        "engine_notes": notes,
        "variant": variant,
    }
    cov.update(extra)
    ev = {
        "property_id": prop, "tier": a.tier, "seed": seed, "level": level,
        "coverage": cov, "assumptions": list(getattr(mod, "ASSUMPTIONS", [])),
        "wall_s": round(wall, 2), "violations": len(reported),
    }
    ev_problem = None
    if not a.only:
        try:
            evidence.write(prop, ev)
        except SystemExit:
            # (e.g. zero states because every history violated)
            ev_problem = "evidence file did not validate"
    print("%s tier=%s seed=%d shards=%d evaluations=%d transitions=%d "
          "states=%d nontrivial=%d outcome_classes=%d cap_hit=%s wall=%.1fs"
          % (prop, a.tier, seed, len(shards), tot["evaluations"],
             tot["transitions"], len(states), len(nontriv), len(outcomes),
             cap_hit, wall))
    for n in notes:
        print("note:", n)
    for ln in lines:
        print(ln)
    if not a.keep:
        shutil.rmtree(rundir, ignore_errors=True)
    if reported:
        raise SystemExit(1)
    if nondeterministic:
        print("harness nondeterminism: %d violation(s) did not reproduce on "
              "replay" % dropped)
        raise SystemExit(2)
    if ev_problem:
        print("harness error:", ev_problem)
        raise SystemExit(2)
    if vac:
        print("harness vacuous: outcome classes never observed: %s" % vac)
        raise SystemExit(2)
    print("OK property=%s held on everything explored" % prop)
    raise SystemExit(0)


if __name__ == "__main__":
    main()
