"""Replay one recorded case in a fresh process (used for sanitised builds).

usage: python -m mc.replay_worker <prop-module> <replay.json>
"""
import importlib
import json
import sys


def main(argv):
    modname, path = argv[:2]
    from mc import boot
    boot.install()
    mod = importlib.import_module("props." + modname)
    with open(path) as f:
        rec = json.load(f)
    ok = mod.replay(rec)
    print("replay:", "property holds" if ok else "VIOLATION reproduced")
    sys.exit(0 if ok else 1)


if __name__ == "__main__":
    main(sys.argv[1:])
