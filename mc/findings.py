"""KNOWN_FINDINGS.txt: line-oriented, read-only at run time.

  known: property=<id> id=<slug> match=<regex on violation signature> :: <what fails>
  fixed: property=<id> <commit> <what failed>

A `known` entry suppresses only violations of its property whose signature
matches its (anchored) regex; any other violation of the property still
exits 1.  `fixed` entries suppress nothing.
"""
import os
import re

VERIF = os.path.dirname(os.path.dirname(os.path.abspath(__file__)))
PATH = os.path.join(VERIF, "KNOWN_FINDINGS.txt")

_LINE = re.compile(
    r"^known:\s+property=(\S+)\s+id=(\S+)\s+match=(\S+)\s+::\s+(.*)$")


def load(path=PATH):
    out = []
    if not os.path.exists(path):
        return out
    with open(path) as f:
        for ln in f:
            ln = ln.rstrip("\n")
            m = _LINE.match(ln)
            if m:
                out.append({"property": m.group(1), "slug": m.group(2),
                            "re": re.compile(m.group(3)),
                            "text": m.group(4)})
    return out


def match(known, prop, violation):
    for k in known:
        if k["property"] == prop and k["re"].fullmatch(violation["sig"]):
            return k
    return None
