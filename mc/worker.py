"""Run one shard of one property driver in this (sub)process.

usage: python -m mc.worker <prop-module> <shard.json> <out.json> [journal]
"""
import gc
import importlib
import json
import os
import sys
import warnings


def main(argv):
    modname, shardfile, out = argv[:3]
    journal = argv[3] if len(argv) > 3 else None
    sys.setrecursionlimit(3000)
    from mc import boot
    boot.install()
    from mc.ctx import Ctx
    with open(shardfile) as f:
        spec = json.load(f)
    warnings.simplefilter("ignore")
    mod = importlib.import_module("props." + modname)
    ctx = Ctx(spec["prop"], spec["shard"], spec["tier"], spec["seed"],
              journal=journal)
    gc.disable()
    mod.run_shard(ctx, spec["shard"], spec["tier"])
    ctx.dump(out)
    sys.stdout.flush()
    os._exit(0)     # skip interpreter teardown (fresh classes by the 10^5)


if __name__ == "__main__":
    main(sys.argv[1:])
