"""Write /verif/evidence/<id>.json and validate it against the schema."""
import json
import os
import subprocess

VERIF = os.path.dirname(os.path.dirname(os.path.abspath(__file__)))
SCHEMA = "/root/.vp/EVIDENCE.schema.json"
LOCAL_SCHEMA = os.path.join(VERIF, "mc", "EVIDENCE.schema.json")


def _structural_check(ev):
    for k in ("property_id", "tier", "seed", "level", "coverage", "wall_s"):
        assert k in ev, k
    c = ev["coverage"]
    assert isinstance(c["samples"], list) and c["samples"]
    assert c["evaluations"] >= 1


def write(prop, ev):
    d = os.environ.get("VERIF_EVIDENCE_DIR") or os.path.join(VERIF, "evidence")
    os.makedirs(d, exist_ok=True)
    path = os.path.join(d, prop + ".json")
    tmp = path + ".tmp"
    with open(tmp, "w") as f:
        json.dump(ev, f, indent=1, default=repr, sort_keys=True)
        f.write("\n")
    os.rename(tmp, path)
    schema = SCHEMA if os.path.exists(SCHEMA) else LOCAL_SCHEMA
    code = ("import json,sys,jsonschema;"
            "jsonschema.validate(json.load(open(sys.argv[1])),"
            "json.load(open(sys.argv[2])))")
    try:
        p = subprocess.run(["python3-vt", "-c", code, path, schema],
                           capture_output=True, text=True, timeout=60)
        if p.returncode != 0:
            if "ModuleNotFoundError" in p.stderr:
                _structural_check(ev)
            else:
                print("harness error: evidence does not validate:\n"
                      + p.stderr[-1500:])
                raise SystemExit(2)
    except (FileNotFoundError, subprocess.TimeoutExpired):
        _structural_check(ev)
    return path
