"""Worker-side accumulator: counters, state hashes, outcome classes, violations."""
import hashlib
import json
import os


def h8(obj):
    """8-byte digest of a canonical (repr-able) key."""
    if not isinstance(obj, (bytes, str)):
        obj = repr(obj)
    if isinstance(obj, str):
        obj = obj.encode("utf-8", "backslashreplace")
    return hashlib.blake2b(obj, digest_size=8).digest()


class Ctx:
    MAX_VIOLATIONS = 200      # per shard, distinct signatures
    MAX_SAMPLES = 4

    def __init__(self, prop, shard, tier, seed, journal=None):
        self.prop = prop
        self.shard = shard
        self.tier = tier
        self.seed = seed
        self.evaluations = 0
        self.transitions = 0
        self.states = set()
        self.nontrivial = set()
        self.outcomes = {}
        self.violations = {}
        #: number of violation() calls (the dict above keeps one per kind)
        self.nviol = 0
        self.samples = []
        self.extra = {}
        self.cap_hit = False
        self.depth_completed = None
        self._journal = open(journal, "w") if journal else None
        self.current = None
        from mc import findings
        self._known = [k for k in findings.load() if k["property"] == prop]

    # -- bookkeeping -------------------------------------------------------
    def case(self, desc):
        """Announce the case about to be executed (journalled in journal mode)."""
        self.current = desc
        if self._journal is not None:
            self._journal.seek(0)
            self._journal.truncate()
            self._journal.write(json.dumps(desc, default=repr))
            self._journal.flush()
            os.fsync(self._journal.fileno())

    def ev(self, n=1):
        self.evaluations += n

    def tr(self, n=1):
        self.transitions += n

    def state(self, key):
        d = h8(key)
        if d in self.states:
            return False
        self.states.add(d)
        return True

    def nontriv(self, key):
        self.nontrivial.add(h8(key))

    def outcome(self, cls, n=1):
        self.outcomes[cls] = self.outcomes.get(cls, 0) + n

    def sample(self, obj):
        if len(self.samples) < self.MAX_SAMPLES:
            self.samples.append(obj)

    def add(self, key, n=1):
        self.extra[key] = self.extra.get(key, 0) + n

    def violation(self, sig, msg, **record):
        """Record a violation. `sig` identifies the *kind* of failure (used for
        de-duplication and for matching KNOWN_FINDINGS entries); the first
        (= shortest, alphabets are ordered simplest-first) witness is kept.
        Returns True when the signature matches a listed known finding (the
        explorer may then keep extending the history instead of stopping)."""
        known = any(k["re"].fullmatch(sig) for k in self._known)
        self.nviol += 1
        ent = self.violations.get(sig)
        if ent is not None:
            ent["count"] += 1
            return known
        if len(self.violations) >= self.MAX_VIOLATIONS:
            self.violations.setdefault("__overflow__", {
                "sig": "__overflow__", "msg": "more distinct violations",
                "count": 0, "record": {}})["count"] += 1
            return known
        record.setdefault("case", self.current)
        self.violations[sig] = {"sig": sig, "msg": msg, "count": 1,
                                "record": record}
        return known

    # -- output ------------------------------------------------------------
    def dump(self, out):
        with open(out + ".states", "wb") as f:
            f.write(b"".join(sorted(self.states)))
        with open(out + ".nontriv", "wb") as f:
            f.write(b"".join(sorted(self.nontrivial)))
        res = {
            "shard": self.shard,
            "evaluations": self.evaluations,
            "transitions": self.transitions,
            "outcomes": self.outcomes,
            "violations": list(self.violations.values()),
            "samples": self.samples,
            "extra": self.extra,
            "cap_hit": self.cap_hit,
            "depth_completed": self.depth_completed,
        }
        tmp = out + ".tmp"
        with open(tmp, "w") as f:
            json.dump(res, f, default=repr)
        os.rename(tmp, out)
