"""Import `traits` from /repo's working tree with the freshly built extension.

Only the name `traits.ctraits` is redirected (to VERIF_EXT); everything else
is imported from /repo/traits as it stands.
"""
import importlib.abc
import importlib.machinery
import importlib.util
import os
import sys

REPO = os.environ.get("VERIF_REPO", "/repo")


class _CtraitsFinder(importlib.abc.MetaPathFinder):
    def __init__(self, path):
        self.path = path

    def find_spec(self, fullname, path=None, target=None):
        if fullname != "traits.ctraits":
            return None
        loader = importlib.machinery.ExtensionFileLoader(fullname, self.path)
        return importlib.util.spec_from_file_location(
            fullname, self.path, loader=loader)


_installed = False


def install(ext=None):
    global _installed
    if _installed:
        return
    ext = ext or os.environ.get("VERIF_EXT")
    if not ext:
        from mc import build
        ext = build.ext_path("rel")
    sys.dont_write_bytecode = True
    if "traits" in sys.modules:
        raise RuntimeError("traits imported before mc.boot.install()")
    sys.path[:] = [p for p in sys.path if os.path.abspath(p or ".") != REPO]
    sys.path.insert(0, REPO)
    sys.meta_path.insert(0, _CtraitsFinder(ext))
    import traits.ctraits as ct
    assert os.path.abspath(ct.__file__) == os.path.abspath(ext), ct.__file__
    import traits
    assert os.path.abspath(traits.__file__).startswith(REPO + os.sep), \
        traits.__file__
    import logging
    logging.getLogger("traits").addHandler(logging.NullHandler())
    logging.getLogger("traits").propagate = False
    _installed = True
