"""Build traits/ctraits.c from /repo's working tree into /verif/.cache/ext.

The build is keyed by the SHA-256 of the C source + flags, so an edit to
ctraits.c is always the code under test even when the in-tree .so is stale.
"""
import fcntl
import hashlib
import os
import subprocess
import sys
import sysconfig

REPO = os.environ.get("VERIF_REPO", "/repo")
VERIF = os.path.dirname(os.path.dirname(os.path.abspath(__file__)))
CACHE = os.path.join(VERIF, ".cache", "ext")

VARIANTS = {
    "rel": ["gcc", "-shared", "-fPIC", "-O2", "-g0", "-fno-strict-overflow",
            "-DNDEBUG", "-Wall", "-Wno-unused-function"],
    "asan": ["clang", "-shared", "-fPIC", "-O1", "-g", "-fno-omit-frame-pointer",
             "-fno-strict-overflow", "-DNDEBUG",
             "-fsanitize=address,undefined",
             "-fno-sanitize-recover=undefined"],
}


def asan_runtime():
    out = subprocess.run(
        ["clang", "-print-file-name=libclang_rt.asan-x86_64.so"],
        capture_output=True, text=True, check=True).stdout.strip()
    return out


def ext_path(variant="rel"):
    """Return path of an up-to-date build of ctraits for `variant`."""
    src = os.path.join(REPO, "traits", "ctraits.c")
    flags = VARIANTS[variant]
    with open(src, "rb") as f:
        data = f.read()
    h = hashlib.sha256(data + "\0".join(flags).encode()
                       + sys.version.encode()).hexdigest()[:20]
    suffix = sysconfig.get_config_var("EXT_SUFFIX")
    outdir = os.path.join(CACHE, h, variant)
    out = os.path.join(outdir, "ctraits" + suffix)
    if os.path.exists(out):
        return out
    os.makedirs(outdir, exist_ok=True)
    lock = open(os.path.join(outdir, ".lock"), "w")
    fcntl.flock(lock, fcntl.LOCK_EX)
    try:
        if os.path.exists(out):
            return out
        inc = sysconfig.get_paths()["include"]
        tmp = out + ".tmp.%d" % os.getpid()
        cmd = flags + ["-I", inc, "-o", tmp, src]
        p = subprocess.run(cmd, capture_output=True, text=True)
        if p.returncode != 0:
            sys.stderr.write(p.stdout + p.stderr)
            raise SystemExit("harness error: cannot build ctraits.c (%s)"
                             % variant)
        os.rename(tmp, out)
        return out
    finally:
        fcntl.flock(lock, fcntl.LOCK_UN)
        lock.close()


def prune(keep=12, min_age_s=6 * 3600):
    """Disk hygiene: drop cached builds beyond the `keep` most recent ones,
    but never one younger than `min_age_s` (another check may be using it)."""
    import shutil
    import time
    try:
        ds = sorted((os.path.getmtime(os.path.join(CACHE, d)), d)
                    for d in os.listdir(CACHE))
    except OSError:
        return
    now = time.time()
    for mtime, d in ds[:-keep]:
        if now - mtime > min_age_s:
            shutil.rmtree(os.path.join(CACHE, d), ignore_errors=True)


if __name__ == "__main__":
    for v in sys.argv[1:] or ["rel"]:
        print(ext_path(v))
