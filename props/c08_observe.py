"""C08 — observe handlers track exactly the objects currently reachable.

Pool of three interlinked Node objects; per expression a menu of graph
mutation events; BFS over histories with canonical-state dedup; after every
step (a) the delivery for the step itself is checked against the watch set
computed by a from-scratch interpreter on the pre-state, and (b) every
object's matched traits are probed and the handler must be called exactly
once iff the interpreter says the object is reachable.
"""
import gc

from traits.api import HasTraits
from traits.observation.api import (
    DictChangeEvent, ListChangeEvent, SetChangeEvent, TraitChangeEvent)

from props import graphs as G

LEVEL = "model_checking"
RULE = ("per observe expression: every history up to the depth bound over "
        "the expression's mutation-event menu on a 3-object pool (sharing, "
        "duplicates and cycles arise from pool reuse), registration before "
        "or after the history; after each history every matched trait of "
        "every object is probed; non-trivial = a step or probe for which the "
        "interpreter expects a call; distinct = distinct (expression, "
        "canonical graph+notifier state, event)")
EXPLANATION = ("direct exploration; reference = from-scratch interpreter of "
               "the expression over the live object graph (reads __dict__ "
               "only)")
BOUNDS = {"quick": "31 expression rows (24 expressions + 5 on node classes with a value-based __eq__ + 2 with a cached-property link), depth 4 with dedup (graph shape + "
                   "notifier fingerprint), late registration at depth<=3",
          "thorough": "depth 5 with dedup, late registration at depth<=4"}
ASSUMPTIONS = ["dispatch='same'", "pool of 3 objects + materialised lazy "
               "defaults", "remove_trait is documented as not observed"]
MIN_OUTCOMES = {t: ["probe-called", "probe-silent-detached",
                    "step-trait-event", "step-list-event", "step-dict-event",
                    "step-set-event", "step-silent-colon", "late-registration"]
                for t in ("quick", "thorough")}
TIMEOUT = {"quick": 1200, "thorough": 7200}

# name -> (observe text, interpreter paths, traits whose events form the menu,
#          final trait names to probe)
EXPRS = {
    "value": ("value", [G.P("value")], ["child", "extra"]),
    "child.value": ("child.value", [G.P("child.value")], ["child"]),
    "child:value": ("child:value", [G.P("child:value")], ["child"]),
    "child.child.value": ("child.child.value", [G.P("child.child.value")],
                          ["child"]),
    "kids.items.value": ("kids.items.value", [G.P("kids.items.value")],
                         ["kids"]),
    "kids:items:value": ("kids:items:value", [G.P("kids:items:value")],
                         ["kids"]),
    "kmap.items.value": ("kmap.items.value", [G.P("kmap.items.value")],
                         ["kmap"]),
    "kset.items.value": ("kset.items.value", [G.P("kset.items.value")],
                         ["kset"]),
    "child.kids.items.value": ("child.kids.items.value",
                               [G.P("child.kids.items.value")],
                               ["child", "kids"]),
    "[child,kids.items].value": ("[child,kids.items].value",
                                 [G.P("child.value"),
                                  G.P("kids.items.value")],
                                 ["child", "kids"]),
    "lazy.value": ("lazy.value", [G.P("lazy.value")], ["lazy"]),
    # a constant default that is itself observable (fresh class, so that
    # the constant is this execution's own)
    "konst.value+fresh": ("konst.value", [G.P("konst.value")], ["konst"]),
    "+tag": ("+tag", [G.P("+tag")], ["extra", "child"]),
    "child.+tag": ("child.+tag", [G.P("child.+tag")], ["extra", "child"]),
    "+link.value": ("+link.value", [G.P("+link.value")], ["child", "xlink"]),
    "+coll.items.value": ("+coll.items.value", [G.P("+coll.items.value")],
                          ["kids", "kmap"]),
    "rows.items.items.value": ("rows.items.items.value",
                               [G.P("rows.items.items.value")], ["rows"]),
    "child.value+readd": ("child.value", [G.P("child.value")],
                          ["child", "readd"]),
    # deletion of an observed link (resets it to its default); the number
    # of calls at the deletion itself is not constrained, tracking after it is
    "child.value+del": ("child.value", [G.P("child.value")],
                        ["child", "del"]),
    "kids.items.value+del": ("kids.items.value",
                             [G.P("kids.items.value")], ["kids", "del"]),
    "child.kids.items.value+del": ("child.kids.items.value",
                                   [G.P("child.kids.items.value")],
                                   ["child", "kids", "del"]),
    "child.*": ("child.*", [G.P("child.*")], ["child", "extra"]),
    "*": ("*", [G.P("*")], ["extra", "child"]),
    "kids.items": ("kids.items", [G.P("kids.items")], ["kids"]),
    # node classes with a value-based __eq__: all nodes equal / an __eq__
    # that raises for foreign operands; reachability goes by identity
    "child.value@eq": ("child.value", [G.P("child.value")], ["child"]),
    "child.child.value@eq": ("child.child.value",
                             [G.P("child.child.value")], ["child"]),
    "child.value@raises": ("child.value", [G.P("child.value")], ["child"]),
    "child:value@raises": ("child:value", [G.P("child:value")], ["child"]),
    "child.child.value@raises": ("child.child.value",
                                 [G.P("child.child.value")], ["child"]),
    "child:kids:items": ("child:kids:items", [G.P("child:kids:items")],
                         ["child", "kids"]),
    # links that are cached properties (the value is not in the instance
    # dictionary under the link's name)
    "plink:value@prop": ("plink:value", [G.P("plink:value")], ["child"]),
    "plink:kids.items.value@prop": ("plink:kids.items.value",
                                    [G.P("plink:kids.items.value")],
                                    ["child", "kids"]),
}
#: a property's value is (documented) not evaluated when an observer is
#: added, only the values its change events carry are followed: these rows
#: register before the history and keep the property link at the root
EARLY_ONLY = {"plink:value@prop", "plink:kids.items.value@prop"}


class Log:
    def __init__(self):
        self.calls = []

    def __call__(self, ev):
        # primitives only
        if isinstance(ev, TraitChangeEvent):
            self.calls.append(("trait", id(ev.object), ev.name, id(ev.new)))
        elif isinstance(ev, ListChangeEvent):
            self.calls.append(("list", id(ev.object), ev.index,
                               [id(x) for x in ev.removed],
                               [id(x) for x in ev.added]))
        elif isinstance(ev, DictChangeEvent):
            self.calls.append(("dict", id(ev.object), sorted(ev.removed),
                               sorted(ev.added)))
        elif isinstance(ev, SetChangeEvent):
            self.calls.append(("set", id(ev.object), len(ev.removed),
                               len(ev.added)))
        else:
            self.calls.append(("?", repr(type(ev))))


def fresh_needed(ename):
    return "*" in ename or "+" in ename


class World:
    def __init__(self, ename):
        self.ename = ename
        if "@" in ename:
            self.pool = G.make_pool(eq={"eq": True, "raises": "raises",
                                        "prop": "prop"}[ename.split("@")[1]])
        else:
            self.pool = G.make_pool(fresh_class=fresh_needed(ename))
        self.log = Log()
        self.registered = False
        self.had_cycle = False

    def cyc(self):
        return ":cyc" if self.had_cycle else ""

    def register(self):
        self.pool[0].observe(self.log, EXPRS[self.ename][0])
        self.registered = True

    def watch(self):
        return G.watch(self.pool[0], EXPRS[self.ename][1])


def check_step(ctx, w, ev, hist, tag):
    """Apply the last event with delivery check. Returns False on violation."""
    ename = w.ename
    G.prepare(w.pool, ev)
    W = w.watch() if w.registered else set()
    w.log.calls.clear()
    ctx.tr()
    try:
        subject, equal = G.apply(w.pool, ev)
    except Exception as exc:
        ctx.violation("C08:mutation-raises:%s:%s%s" % (w.ename, ev[0],
                                                       w.cyc()),
                      "the mutation itself raised %r" % (exc,),
                      expr=w.ename, history=hist, tag=tag)
        return False
    w.had_cycle = w.had_cycle or G.has_cycle(w.pool)
    calls = list(w.log.calls)
    good = True

    def bad(kind, msg):
        nonlocal good
        good = False
        ctx.violation("C08:%s:%s:%s%s" % (kind, ename, ev[0], w.cyc()), msg,
                      expr=ename, history=hist, tag=tag, calls=repr(calls))
    if not w.registered:
        if calls:
            bad("unregistered-call", "handler called before registration")
        return good
    if subject[0] == "trait":
        key = ("trait", id(subject[1]), subject[2])
        exp = 1 if (key in W and not equal) else 0
        if len(calls) != exp:
            bad("step-count", "assignment to %r.%s: %d call(s), expected %d"
                % (subject[1], subject[2], len(calls), exp))
        elif exp:
            ctx.outcome("step-trait-event")
            ctx.nontriv((ename, "step", ev))
            c = calls[0]
            if c[0] != "trait" or c[1] != id(subject[1]) or c[2] != subject[2]:
                bad("step-event", "event does not identify the changed "
                    "object/trait: %r" % (c,))
            elif c[3] != id(subject[1].__dict__.get(subject[2])):
                bad("step-event-new", "event.new is not the new value")
        elif key not in W and any(k[0] == "trait" and k[1] == key[1]
                                  for k in W):
            pass
        else:
            ctx.outcome("step-silent-colon")
    elif subject[0] == "cont":
        key = ("cont", id(subject[1]))
        exp = 1 if key in W else 0
        if len(calls) != exp:
            bad("step-count", "mutation of %s: %d call(s), expected %d"
                % (ev[0], len(calls), exp))
        elif exp:
            c = calls[0]
            kind = {"kids": "list", "kmap": "dict", "kset": "set",
                    "rows": "list"}[ev[0][:4]]
            ctx.outcome("step-%s-event" % kind)
            ctx.nontriv((ename, "step", ev))
            if c[0] != kind or c[1] != id(subject[1]):
                bad("step-event", "expected a %s change event on the "
                    "mutated container, got %r" % (kind, c))
        else:
            ctx.outcome("step-silent-colon")
    elif subject[0] == "del":
        ctx.outcome("step-del")
    elif subject[0] == "read":
        if calls:
            bad("default-read-call", "materialising a default called the "
                "handler")
    elif subject[0] == "add_trait":
        # adding a trait fires the object's trait_added event, which only
        # an anytrait ('*') observer of that object matches
        exp = 1 if ("trait", id(subject[1]), "trait_added") in W else 0
        if len(calls) != exp or (exp and calls[0][2] != "trait_added"):
            bad("add-trait-call", "add_trait: calls %r, expected %d "
                "trait_added event(s)" % (calls, exp))
    return good


def probe(ctx, w, hist, tag):
    """Change every candidate trait of every object; the handler must be
    called exactly once iff the interpreter finds the position watched."""
    ename = w.ename
    good = True
    objs = G.all_objects(w.pool)
    W = w.watch()
    final = set()
    for p in EXPRS[ename][1]:
        last = p[-1]
        final.add(last[0] if last[0] != "t" else last[1])
    for o in objs:
        if "items" in final:
            # container-change expression: probe by mutating the list
            c = o.__dict__.get("kids")
            if c is None:
                continue
            exp = 2 if ("cont", id(c)) in W else 0
            w.log.calls.clear()
            c.append(w.pool[2])
            c.pop()
            got = len(w.log.calls)
            ctx.tr()
            if got != exp:
                good = False
                ctx.violation(
                    "C08:probe-items:%s%s" % (ename, w.cyc()),
                    "append+pop on %r.kids: %d call(s), expected %d"
                    % (o, got, exp), expr=ename, history=hist, tag=tag)
            ctx.outcome("probe-called" if exp else "probe-silent-detached")
            continue
        names = ["value", "tagged"]
        if "extra" in o._instance_traits():
            names.append("extra")
        for name in names:
            exp = 1 if ("trait", id(o), name) in W else 0
            w.log.calls.clear()
            setattr(o, name, getattr(o, name) + 1)
            calls = list(w.log.calls)
            ctx.tr()
            if exp:
                ctx.outcome("probe-called")
                ctx.nontriv((ename, "probe", G.shape(w.pool), repr(o), name))
            else:
                ctx.outcome("probe-silent-detached")
            if len(calls) != exp:
                good = False
                ctx.violation(
                    "C08:probe-%s:%s%s" % ("missed" if exp else "stale",
                                           ename, w.cyc()),
                    "changing %r.%s: %d call(s), expected %d (%s)"
                    % (o, name, len(calls), exp,
                       "reachable" if exp else "not reachable"),
                    expr=ename, history=hist, tag=tag, calls=repr(calls))
            elif exp:
                c = calls[0]
                if c[0] != "trait" or c[1] != id(o) or c[2] != name:
                    good = False
                    ctx.violation(
                        "C08:probe-event:%s%s" % (ename, w.cyc()),
                        "event does not identify %r.%s: %r" % (o, name, c),
                        expr=ename, history=hist, tag=tag)
    return good


def run_history(ctx, ename, hist, late):
    """Build a fresh world, replay `hist`, check the last step and probe.
    Returns (ok, canonical state key) or (None, None) if the last event is
    not enabled."""
    w = World(ename)
    if not late:
        w.register()
    for i, ev in enumerate(hist):
        if not G.enabled(w.pool, ev):
            return None, None
        if i < len(hist) - 1:
            G.apply(w.pool, ev)
            w.had_cycle = w.had_cycle or G.has_cycle(w.pool)
        else:
            if not check_step(ctx, w, ev, hist, "late" if late else "early"):
                return False, None
    if late:
        w.register()
        ctx.outcome("late-registration")
    ok = probe(ctx, w, hist, "late" if late else "early")
    key = (ename, G.shape(w.pool), G.fingerprint(G.all_objects(w.pool)))
    return ok, key


# --------------------------------------------------------------- re-entrant
def reentrant_cells(ctx):
    """A change handler re-assigns the observed link while the assignment
    that called it is still being dispatched. When the outer assignment
    returns, exactly the objects reachable in the final graph are hooked."""
    import itertools
    for ename in ("child.value", "child:value", "child.child.value"):
        for writer in ("self", "before", "after"):
            if writer == "self" and ":" in ename.split("child")[1][:1]:
                continue        # a ':' link does not call the handler
            for c0, c1, c2 in itertools.product((None, 1, 2), (1, 2, 0),
                                                (None, 1, 2)):
                if c1 == c0 or c2 == c1:
                    continue
                case = {"expr": ename, "reentrant": writer,
                        "history": [["child", 0, c0], ["child", 0, c1],
                                    ["handler-assigns", 0, c2]]}
                ctx.case(case)
                ctx.ev()
                w = World(ename)
                root = w.pool[0]
                if c0 is not None:
                    root.child = w.pool[c0]
                new1 = w.pool[c1]
                new2 = None if c2 is None else w.pool[c2]
                fired = []

                def rewrite(*args):
                    if root.__dict__.get("child") is new1 and not fired:
                        fired.append(1)
                        root.child = new2
                if writer == "before":
                    root.on_trait_change(rewrite, "child")
                if writer == "self":
                    log = w.log

                    def both(ev):
                        log(ev)
                        if ev.name == "child":
                            rewrite()
                    w.log = both
                    both.calls = log.calls
                w.register()
                if writer == "after":
                    root.on_trait_change(rewrite, "child")
                ctx.tr()
                try:
                    root.child = new1
                except Exception as exc:
                    ctx.violation("C08:reentrant-raises:%s:%s" % (ename,
                                                                  writer),
                                  "raised %r" % (exc,), **case)
                    continue
                if not fired or root.__dict__.get("child") is not new2:
                    continue
                w.had_cycle = False
                if writer == "self":
                    w.log = log
                    # the registered callable is `both`; it logs into log
                ok = True
                objs = G.all_objects(w.pool)
                W = w.watch()
                for o in objs:
                    exp = 1 if ("trait", id(o), "value") in W else 0
                    log_calls = w.log.calls
                    log_calls.clear()
                    o.value += 1
                    got = len([c for c in log_calls if c[2] == "value"])
                    ctx.tr()
                    if got != exp:
                        ok = False
                        ctx.violation(
                            "C08:reentrant:%s:%s%s" % (
                                ename, writer,
                                ":cyc" if 0 in (c0, c1, c2) else ""),
                            "a %s re-assigned root.child to %r while "
                            "root.child = %r (was %r) was being dispatched; "
                            "afterwards changing %r.value gives %d call(s), "
                            "expected %d (%s)" % (
                                {"self": "the observe handler itself",
                                 "before": "handler registered before the "
                                           "observer",
                                 "after": "handler registered after the "
                                          "observer"}[writer],
                                new2, new1,
                                None if c0 is None else w.pool[c0], o, got,
                                exp, "reachable" if exp else "not reachable"),
                            **case)
                        break
                if ok:
                    ctx.outcome("probe-called")


def wildcard_cells(ctx):
    """An attribute governed by a wildcard declaration comes into being at
    its first access; an observer registered before that (optional name,
    anytrait, metadata filter) follows it from that very access on"""
    from traits.api import HasTraits, Instance, Int
    from traits.observation.api import trait as t_

    class Leaf(HasTraits):
        value = Int

    exprs = {"optional-name": lambda: t_("slot_a", optional=True).trait(
        "value"), "anytrait": lambda: "*"}
    for ename, first in ((e, f) for e in exprs
                         for f in ("assign", "read-then-assign")):
        case = {"wildcard_cell": ename, "first": first}
        ctx.case(case)
        ctx.ev()
        ctx.tr()

        class W(HasTraits):
            slot_ = Instance(Leaf)
        w = W()
        w0 = W()
        calls = []

        def h(ev):
            calls.append((getattr(ev, "name", None), id(ev.object)))
        try:
            w.observe(h, exprs[ename]())
            if first == "read-then-assign":
                w.slot_a
            calls.clear()
            leaf = Leaf()
            w.slot_a = leaf
        except Exception as exc:
            ctx.violation("C08:wildcard:raises:%s" % ename, "raised %r"
                          % (exc,), **case)
            continue
        got = [c for c in calls if c[0] == "slot_a"]
        if len(got) != 1:
            ctx.violation(
                "C08:wildcard:link-event:%s:%s" % (ename, first),
                "observer registered before the wildcard-governed attribute "
                "existed: its %s assignment gave %d event(s), expected 1"
                % ("first" if first == "assign" else "first (after a read)",
                   len(got)), **case)
            continue
        ctx.outcome("step-trait-event")
        if ename != "anytrait":
            calls.clear()
            leaf.value += 1
            if len(calls) != 1:
                ctx.violation(
                    "C08:wildcard:leaf:%s:%s" % (ename, first),
                    "the object assigned to the new attribute is reachable "
                    "but changing its value gave %d call(s)" % len(calls),
                    **case)
                continue
            ctx.outcome("probe-called")
        # a second instance of the class, created before or after, observed
        # by nobody and unreachable from the first
        for when, other in (("before", w0), ("after", W())):
            calls.clear()
            other_leaf = Leaf()
            other.slot_a = other_leaf
            other_leaf.value += 1
            other.slot_a = None
            if calls:
                ctx.violation(
                    "C08:wildcard:other-instance:%s:%s" % (ename, when),
                    "an instance nobody observes (created %s the observed "
                    "one used the name) had its attribute and the object in "
                    "it changed: the handler was called %d time(s)"
                    % (when, len(calls)), **case)
                break
            ctx.outcome("probe-silent-detached")
        calls.clear()
        w.slot_a = Leaf()
        if len([c for c in calls if c[0] == "slot_a"]) != 1:
            ctx.violation(
                "C08:wildcard:link-event-later:%s:%s" % (ename, first),
                "after other instances used the name too, re-assigning it on "
                "the observed instance gave %d event(s)" % len(calls), **case)


def wildcard_sibling_first_cells(ctx):
    """the wildcard-governed name was first used on *another* instance
    (which makes it a class-level trait); an observer registered afterwards
    on a fresh instance must see that name like any other"""
    from traits.api import HasTraits, Instance, Int
    from traits.observation.api import trait as t_

    class Leaf(HasTraits):
        value = Int
    for ename, mk in (("anytrait", lambda: "*"),
                      ("optional-name", lambda: t_("slot_a", optional=True))):
        case = {"wildcard_cell": ename, "first": "sibling-first"}
        ctx.case(case)
        ctx.ev()
        ctx.tr()

        class W(HasTraits):
            slot_ = Instance(Leaf)
        sib = W()
        sib.slot_a = Leaf()
        w = W()
        calls = []

        def h(ev):
            calls.append(getattr(ev, "name", None))
        try:
            w.observe(h, mk())
            w.slot_a = Leaf()
        except Exception as exc:
            ctx.violation("C08:wildcard:raises:%s" % ename, "raised %r"
                          % (exc,), **case)
            continue
        if calls.count("slot_a") != 1:
            ctx.violation(
                "C08:wildcard:sibling-first:%s" % ename,
                "the name had been used on another instance before; an "
                "observer registered on a fresh instance got %d event(s) for "
                "its first assignment of that name" % calls.count("slot_a"),
                **case)
        else:
            ctx.outcome("step-trait-event")


def foreign_default_cells(ctx):
    """the link's lazily created default is an object of a base class that
    does not have the observed trait at all (it was never hooked, being
    created after the observer was attached, or before it - then the observer
    cannot be attached, which is the documented error); the first real
    assignment replaces it without complaint and the new object is followed"""
    from traits.api import HasTraits, Instance, Int

    class Base(HasTraits):
        pass

    class Leaf(Base):
        value = Int

    for link in ("child:value", "child.value"):
        for read_first in (False, True):
            case = {"wildcard_cell": "foreign-default", "first": link,
                    "read_first": read_first}
            ctx.case(case)
            ctx.ev()
            ctx.tr()

            class Root(HasTraits):
                child = Instance(Base, ())
            root = Root()
            calls = []

            def h(ev):
                calls.append(getattr(ev, "name", None))
            root.observe(h, link)
            leaf = Leaf()
            try:
                if read_first:
                    root.child          # materialises the default (silent)
                root.child = leaf
            except Exception as exc:
                if read_first:
                    # (the default, once it exists under an observer that
                    #  needs `value`, is the documented "trait not found")
                    continue
                ctx.violation("C08:foreign-default:raises", "%s: assigning "
                              "the first real child raised %r" % (link, exc),
                              **case)
                continue
            want = 1 if "." in link else 0
            if calls.count("child") != want:
                ctx.violation("C08:foreign-default:link-event", "%s: %d "
                              "event(s) for the link" % (
                                  link, calls.count("child")), **case)
            calls.clear()
            leaf.value += 1
            if calls != ["value"]:
                ctx.violation("C08:foreign-default:not-followed", "%s: the "
                              "assigned object is reachable; changing its "
                              "value gave %r" % (link, calls), **case)
                continue
            leaf2 = Leaf()
            root.child = leaf2
            calls.clear()
            leaf.value += 1
            leaf2.value += 1
            if calls != ["value"]:
                ctx.violation("C08:foreign-default:after-replacement",
                              "%s: after a second assignment the detached "
                              "and the new object together gave %r"
                              % (link, calls), **case)
            else:
                ctx.outcome("probe-called")


#: expressions with large menus: events on the root only, one level less
ROOT_ONLY = {"+coll.items.value"}


def menu(ename):
    if ename in ROOT_ONLY:
        return G.event_menu(EXPRS[ename][2], idx=(0,))
    return G.event_menu(EXPRS[ename][2])


def shards(tier):
    out = [{"expr": "__reentrant__"}, {"expr": "__wildcard__"}]
    for ename in EXPRS:
        evs = menu(ename)
        n = 8 if len(evs) > 40 else (4 if len(evs) > 20 else 2)
        for c in range(n):
            out.append({"expr": ename, "chunk": c, "of": n})
    return out


def run_shard(ctx, shard, tier):
    ename = shard["expr"]
    if ename == "__reentrant__":
        reentrant_cells(ctx)
        ctx.depth_completed = 3
        return
    if ename == "__wildcard__":
        wildcard_cells(ctx)
        wildcard_sibling_first_cells(ctx)
        foreign_default_cells(ctx)
        ctx.depth_completed = 2
        return
    evs = menu(ename)
    depth = 4 if tier == "quick" else 5
    late_depth = 3 if tier == "quick" else 4
    if ename in ROOT_ONLY:
        depth -= 1
        late_depth -= 1
    # level 1 is split between the chunks; deeper levels follow from it
    firsts = evs[shard["chunk"]::shard["of"]]
    frontier = [[]]
    n_exec = 0
    for d in range(1, depth + 1):
        nxt = []
        for hist in frontier:
            for ev in (firsts if d == 1 else evs):
                h2 = hist + [ev]
                ctx.case({"expr": ename, "history": h2, "late": False})
                ok, key = run_history(ctx, ename, h2, late=False)
                if ok is None:
                    continue
                ctx.ev()
                n_exec += 1
                if n_exec % 2000 == 0:
                    gc.collect()
                if d <= late_depth and ename not in EARLY_ONLY:
                    ctx.case({"expr": ename, "history": h2, "late": True})
                    run_history(ctx, ename, h2, late=True)
                    ctx.ev()
                if ok and ctx.state(key):
                    nxt.append(h2)
        frontier = nxt
    if shard["chunk"] == 0:
        ctx.case({"expr": ename, "history": [], "late": False})
        run_history(ctx, ename, [], late=False)
        ctx.ev()
    ctx.depth_completed = depth
    ctx.sample({"expr": ename, "history": frontier[0] if frontier else
                [evs[0]]})


def replay(rec):
    from mc.ctx import Ctx
    ctx = Ctx("C08", None, "quick", 0)
    c = rec.get("case") or rec
    if c.get("wildcard_cell"):
        wildcard_cells(ctx)
        wildcard_sibling_first_cells(ctx)
        foreign_default_cells(ctx)
        for v in ctx.violations.values():
            print("  violation:", v["sig"], v["msg"])
        return not ctx.violations
    if c.get("reentrant"):
        reentrant_cells(ctx)
        want = rec.get("sig")
        hit = [v for v in ctx.violations.values()
               if want is None or v["sig"] == want]
        for v in hit:
            print("  violation:", v["sig"], v["msg"])
        return not hit
    hist = [tuple(e) for e in c["history"]]
    ok, key = run_history(ctx, c["expr"], hist, c.get("late", False))
    print("expr", c["expr"], "history", hist, "late", c.get("late"))
    for v in ctx.violations.values():
        print("  violation:", v["sig"], v["msg"], v["record"].get("calls"))
    return not ctx.violations
