"""C11 — deferred traits mirror their target: delegation and prototyping."""
import gc

from traits.api import (Delegate, DelegatesTo, Dict, Event, HasStrictTraits, HasTraits,
                        Instance, Int, List, Property, PrototypedFrom, Set,
                        Str, TraitError, cached_property)

LEVEL = "model_checking"
RULE = ("every history up to the depth bound over: assign through the "
        "deferring object (valid/invalid), assign on either candidate "
        "delegate, swap the delegate, delete the local value; for the four "
        "prefix styles x {DelegatesTo, PrototypedFrom} and a three-level "
        "chain; state = (delegate values, local overrides, current "
        "delegate); non-trivial = step that changed the model or raised; "
        "distinct = distinct (model state, event)")
EXPLANATION = ("direct exploration; reference model = two dicts + a 'link "
               "broken' bit per prototyped attribute")
BOUNDS = {"quick": "nine kinds; depth 3 with dedup over ~90 events (eight-attribute "
                   "classes) and over 36 events (container / event targets), depth 5 (two-attribute prototype class, chain)",
          "thorough": "depth 4 / 6"}
ASSUMPTIONS = ["a notification on delegate *swap* is neither required nor "
               "forbidden", "listenable=True"]
MIN_OUTCOMES = {t: ["delegated-write", "prototype-local-write",
                    "invalid-rejected", "linked-notified",
                    "unlinked-silent", "former-delegate-silent",
                    "link-restored", "chain-write"]
                for t in ("quick", "thorough")}
TIMEOUT = {"quick": 1200, "thorough": 7200}


class Parent(HasTraits):
    x = Int(1)
    y = Int(2)
    pre_q = Int(3)
    pp_r = Int(4)
    _t = Int(6)
    pp_t = Int(66)
    nl = Int(7)
    #: a target name that only a wildcard declares
    opt_ = Int(8)


class Child(HasTraits):
    __prefix__ = "pp_"
    parent = Instance(Parent)
    # DelegatesTo, four prefix styles
    x = DelegatesTo("parent")
    xx = DelegatesTo("parent", prefix="y")
    q = DelegatesTo("parent", prefix="pre_*")
    r = DelegatesTo("parent", prefix="*")
    t = DelegatesTo("parent", prefix="_*")      # one-character prefix
    nl = DelegatesTo("parent", listenable=False)
    opt_a = DelegatesTo("parent", listenable=False)
    #: the legacy spelling with positional options (prefix, modify)
    lg = Delegate("parent", "y", True)


class PChild(HasTraits):
    __prefix__ = "pp_"
    parent = Instance(Parent)
    x = PrototypedFrom("parent")
    xx = PrototypedFrom("parent", prefix="y")
    q = PrototypedFrom("parent", prefix="pre_*")
    r = PrototypedFrom("parent", prefix="*")
    t = PrototypedFrom("parent", prefix="_*")
    nl = PrototypedFrom("parent", listenable=False)
    opt_a = PrototypedFrom("parent", listenable=False)
    lg = Delegate("parent", "y", False)


class PChild2(HasTraits):
    """only two deferring attributes (listener bookkeeping edge cases)"""
    parent = Instance(Parent)
    x = PrototypedFrom("parent")
    xx = PrototypedFrom("parent", prefix="y")


class PChild2P(HasTraits):
    """the prototype attribute is a Property (never in the instance
    dictionary)"""
    plist = List(Instance(Parent))
    pidx = Int(0)
    parent = Property(Instance(Parent), observe="plist.items, pidx")
    x = PrototypedFrom("parent")
    xx = PrototypedFrom("parent", prefix="y")

    @cached_property
    def _get_parent(self):
        if self.pidx < len(self.plist):
            return self.plist[self.pidx]
        return None


class Leaf(HasTraits):
    width = Int(10)
    w = Int(-1)


class Middle(HasTraits):
    leaf = Instance(Leaf)
    width = DelegatesTo("leaf")


class Top(HasTraits):
    middle = Instance(HasTraits)
    w = DelegatesTo("middle", prefix="width")


class MiddleP(HasTraits):
    """the delegate attribute is a Property: it never lives in the instance
    dictionary"""
    leaves = List(Instance(Leaf))
    current = Int(0)
    leaf = Property(Instance(Leaf), observe="leaves.items, current")
    width = DelegatesTo("leaf")

    def _get_leaf(self):
        if self.current < len(self.leaves):
            return self.leaves[self.current]
        return None


class Engine(HasStrictTraits):
    power = Int


class Car(HasTraits):
    """defers onto a name its strict delegate does not declare: the
    delegate's own rule for undeclared names governs"""
    engine = Instance(Engine)
    torque = DelegatesTo("engine", listenable=False)


class CParent(HasTraits):
    """container-valued and event targets"""
    nums = List(Int)
    dd = Dict(Str, Int)
    ss = Set(Int)
    ev = Event(Int)


class CChild(HasTraits):
    parent = Instance(CParent)
    nums = DelegatesTo("parent")
    dd = DelegatesTo("parent")
    ss = DelegatesTo("parent")
    ev = DelegatesTo("parent")


class CPChild(HasTraits):
    parent = Instance(CParent)
    nums = PrototypedFrom("parent")
    dd = PrototypedFrom("parent")
    ss = PrototypedFrom("parent")
    ev = PrototypedFrom("parent")


CONT = ("nums", "dd", "ss")


def c_fresh(attr, n):
    """a new whole value for a container attribute"""
    return {"nums": [n], "dd": {"k%d" % n: n}, "ss": {n}}[attr]


def c_mutate(container, attr, n):
    if attr == "nums":
        container.append(n)
    elif attr == "dd":
        container["k%d" % n] = n
    else:
        container.add(n)


def c_mutate_bad(container, attr):
    if attr == "nums":
        container.append("bad")
    elif attr == "dd":
        container["kb"] = "bad"
    else:
        container.add("bad")


def c_plain(v):
    if isinstance(v, list):
        return list(v)
    if isinstance(v, dict):
        return dict(v)
    return set(v)


class ContWorld:
    """deferring onto List / Dict / Set / Event(Int) targets: in-place
    mutation on either side, whole-value assignment, validated events"""

    def __init__(self, kind):
        self.kind = kind
        self.parents = [CParent(nums=[1], dd={"a": 1}, ss={1}), CParent()]
        self.P = [{"nums": [1], "dd": {"a": 1}, "ss": {1}},
                  {"nums": [], "dd": {}, "ss": set()}]
        self.L = {}
        self.cur = 0
        self.n = 10
        self.ev_local = False
        cls = CChild if kind == "cont-delegate" else CPChild
        self.c = c = cls(parent=self.parents[0])
        self.calls = calls = []
        import weakref
        cref = weakref.ref(c)

        def mk(name, mech):
            if mech == "otc":
                def h(new):
                    note(name, mech, new)
            else:
                def h(ev):
                    note(name, mech, ev.new)
            return h

        def note(name, mech, new):
            if name == "ev":
                calls.append((name, mech, new if isinstance(new, int)
                              else type(new).__name__))
                return
            cur = getattr(cref(), name)
            try:
                same = (type(new) is type(cur)) and c_plain(new) == \
                    c_plain(cur)
            except Exception:
                same = False
            calls.append((name, mech, "value" if same
                          else type(new).__name__))

        def items(name):
            def h(new):
                calls.append((name + "_items", "otc", type(new).__name__))
            return h
        for name in CONT + ("ev",):
            c.on_trait_change(mk(name, "otc"), name)
            c.observe(mk(name, "obs"), name)
            if name != "ev":
                c.on_trait_change(items(name), name + "_items")

    def clear(self):
        self.calls.clear()

    def fresh(self):
        self.n += 1
        return self.n


def cont_menu(kind):
    evs = []
    for a in CONT:
        for i in (0, 1):
            evs.append(("mut_parent", i, a))
            evs.append(("set_parent", i, a))
        evs += [("mut_child", a), ("mut_child_bad", a), ("set_child", a, 5),
                ("set_child", a, "bad")]
        if kind == "cont-proto":
            evs.append(("del_child", a))
    evs += [("fire_child", 5), ("fire_child", "bad"), ("fire_parent", 0),
            ("fire_parent", 1), ("swap", 0), ("swap", 1)]
    return evs


def cont_step(ctx, w, ev, hist):
    good = True

    def bad(kind, msg):
        nonlocal good
        good = False
        ctx.violation("C11:%s:%s:%s" % (kind, w.kind, ":".join(
            str(x) for x in ev[:1] + ev[-1:])), msg, kind=w.kind,
            history=hist)
    w.clear()
    ctx.tr()
    k, c = ev[0], w.c
    proto = w.kind == "cont-proto"
    linked = lambda a: a not in w.L
    name_calls = lambda a: [x for x in w.calls if x[0] == a]
    if k == "mut_parent":
        i, a = ev[1], ev[2]
        n = w.fresh()
        c_mutate(getattr(w.parents[i], a), a, n)
        c_mutate(w.P[i][a], a, n)
        if not (i == w.cur and linked(a)):
            got = [x for x in w.calls if x[1] == "otc"]
            if got:
                bad("forwarded-unlinked:%s" % a, "the %s of %s was mutated "
                    "in place and handlers of the deferring object were "
                    "called: %r" % (a, "another delegate" if i != w.cur else
                                    "the delegate after the link was broken",
                                    got))
            else:
                ctx.outcome("unlinked-silent" if i == w.cur
                            else "former-delegate-silent")
    elif k == "set_parent":
        i, a = ev[1], ev[2]
        n = w.fresh()
        setattr(w.parents[i], a, c_fresh(a, n))
        w.P[i][a] = c_fresh(a, n)
        got = name_calls(a)
        if i == w.cur and linked(a):
            ctx.outcome("linked-notified")
            for mech in ("otc", "obs"):
                if not [x for x in got if x[1] == mech]:
                    bad("not-forwarded:%s:%s" % (a, mech), "the delegate's "
                        "%s was replaced but the %s handler of the deferring "
                        "attribute was not called" % (a, mech))
        elif got:
            bad("forwarded-unlinked:%s" % a, "the %s of %s was replaced and "
                "handlers of the deferring attribute were called: %r" % (
                    a, "another delegate" if i != w.cur else "the delegate "
                    "after the link was broken", got))
    elif k in ("mut_child", "mut_child_bad"):
        a = ev[1]
        cont = getattr(c, a)
        if linked(a) and cont is not getattr(w.parents[w.cur], a):
            bad("not-the-delegates-container:%s" % a, "while linked the "
                "deferring attribute does not read as the delegate's own "
                "container object")
        try:
            if k == "mut_child":
                n = w.fresh()
                c_mutate(cont, a, n)
                c_mutate(w.L[a] if a in w.L else w.P[w.cur][a], a, n)
                ctx.nontriv((w.kind, k, a, repr(cont_canon(w))))
            else:
                c_mutate_bad(cont, a)
                bad("invalid-item-accepted:%s" % a, "an invalid item was "
                    "accepted into the container read through the deferring "
                    "attribute")
        except TraitError as e:
            if k == "mut_child":
                bad("valid-item-rejected:%s" % a, "valid item rejected: %s"
                    % e)
            else:
                ctx.outcome("invalid-rejected")
                if w.calls:
                    bad("refused-notified:%s" % a, "a refused mutation "
                        "called %r" % (w.calls,))
    elif k == "set_child":
        a, v = ev[1], ev[2]
        n = w.fresh()
        val = c_fresh(a, n) if v != "bad" else \
            {"nums": ["bad"], "dd": {"kb": "bad"}, "ss": {"bad"}}[a]
        try:
            setattr(c, a, val)
            exc = None
        except TraitError as e:
            exc = e
        except Exception as e:
            bad("raises", "assignment raised %r" % (e,))
            return good
        if v == "bad":
            ctx.outcome("invalid-rejected")
            if exc is None:
                bad("invalid-accepted:%s" % a, "an invalid container value "
                    "was accepted through the deferring attribute")
                return good
            if w.calls:
                bad("refused-notified:%s" % a, "a refused assignment called "
                    "%r" % (w.calls,))
        else:
            if exc is not None:
                bad("valid-rejected:%s" % a, "valid value rejected: %s" % exc)
                return good
            if proto:
                w.L[a] = c_fresh(a, n)
                ctx.outcome("prototype-local-write")
                if getattr(c, a) is getattr(w.parents[w.cur], a):
                    bad("local-aliases-delegate:%s" % a, "after a local "
                        "assignment the attribute still reads as the "
                        "prototype's container")
            else:
                w.P[w.cur][a] = c_fresh(a, n)
                ctx.outcome("delegated-write")
                if a in c.__dict__:
                    bad("stored-locally:%s" % a, "DelegatesTo write stored a "
                        "local value")
            for mech in ("otc", "obs"):
                if not [x for x in name_calls(a) if x[1] == mech]:
                    bad("write-not-notified:%s:%s" % (a, mech), "assigning "
                        "through the deferring attribute did not call its %s "
                        "handler" % mech)
            ctx.nontriv((w.kind, k, a, repr(cont_canon(w))))
    elif k == "del_child":
        a = ev[1]
        try:
            delattr(c, a)
        except Exception as e:
            bad("del-raises", "deleting the local value raised %r" % (e,))
            return good
        if a in w.L:
            ctx.outcome("link-restored")
        w.L.pop(a, None)
    elif k == "fire_child":
        v = ev[1]
        try:
            c.ev = v
            exc = None
        except TraitError as e:
            exc = e
        except Exception as e:
            bad("raises", "firing the event raised %r" % (e,))
            return good
        if v == "bad":
            ctx.outcome("invalid-rejected")
            if exc is None:
                bad("invalid-accepted:ev", "an invalid payload was accepted "
                    "by an Event(Int) reached through the deferring "
                    "attribute (handlers saw %r)" % (w.calls,))
            elif w.calls:
                bad("refused-notified:ev", "a refused payload called %r"
                    % (w.calls,))
        elif exc is not None:
            bad("valid-rejected:ev", "valid payload rejected: %s" % exc)
        else:
            for mech in ("otc", "obs"):
                got = [x[2] for x in w.calls if x[:2] == ("ev", mech)]
                if got != [v]:
                    bad("event-count:%s" % mech, "firing the event through "
                        "the deferring attribute called its %s handler with "
                        "%r, expected once with %r" % (mech, got, v))
            ctx.nontriv((w.kind, k, v))
            if proto:
                # a local assignment: from here on the statement neither
                # requires nor forbids forwarding of the prototype's event
                # (an event stores nothing that could be deleted again)
                w.ev_local = True
    elif k == "fire_parent":
        i = ev[1]
        w.parents[i].ev = 7
        got = [x for x in w.calls if x[0] == "ev"]
        if w.ev_local:
            pass
        elif i == w.cur:
            ctx.outcome("linked-notified")
            for mech in ("otc", "obs"):
                g = [x[2] for x in got if x[1] == mech]
                if g != [7]:
                    bad("event-not-forwarded:%s" % mech, "the delegate's "
                        "event fired with 7; the %s handler of the deferring "
                        "attribute got %r" % (mech, g))
        elif got:
            bad("forwarded-unlinked:ev", "another delegate's event reached "
                "the deferring attribute's handlers: %r" % (got,))
        else:
            ctx.outcome("former-delegate-silent")
    elif k == "swap":
        c.parent = w.parents[ev[1]]
        w.cur = ev[1]
    # ---- whatever happened: name handlers only ever see values
    for x in w.calls:
        if x[0] in CONT and x[2] != "value":
            bad("handler-got-non-value:%s:%s" % (x[0], x[1]), "the %s "
                "handler of the deferring attribute %s was called with a %s, "
                "not with the attribute's new value" % (x[1], x[0], x[2]))
    # ---- read-back
    for i, p in enumerate(w.parents):
        for a in CONT:
            if c_plain(getattr(p, a)) != w.P[i][a]:
                bad("delegate-value:%s" % a, "delegate %d has %s = %r, model "
                    "%r" % (i, a, getattr(p, a), w.P[i][a]))
    for a in CONT:
        want = w.L[a] if a in w.L else w.P[w.cur][a]
        if c_plain(getattr(c, a)) != want:
            bad("read:%s" % a, "%s reads %r, model %r" % (
                a, getattr(c, a), want))
    return good


def cont_canon(w):
    return (w.kind, [sorted((a, repr(sorted(v.items()) if isinstance(v, dict)
                                      else sorted(v))) for a, v in p.items())
                     for p in w.P],
            sorted((a, repr(sorted(v.items()) if isinstance(v, dict)
                            else sorted(v))) for a, v in w.L.items()), w.cur,
            w.ev_local)


ALL_ATTRS = {"x": "x", "xx": "y", "q": "pre_q", "r": "pp_r", "t": "_t",
             "nl": "nl", "opt_a": "opt_a", "lg": "y"}
#: listenable=False: values mirror the target, forwarding of notifications
#: is not promised
NOLISTEN = {"nl", "opt_a"}
ATTRS = dict(ALL_ATTRS)
VALS = [5, 6, "bad"]


class World:
    def __init__(self, kind):
        self.kind = kind
        self.calls = {}
        if kind.startswith("chain"):
            self.leaves = [Leaf(), Leaf()]
            if kind == "chainprop":
                self.mid = MiddleP(leaves=self.leaves)
            else:
                self.mid = Middle(leaf=self.leaves[0])
            self.top = Top(middle=self.mid)
            self.cur = 0
            self.M = [{"width": 10}, {"width": 10}]
            self.hook(self.top, ["w"])
            self.hook(self.mid, ["width"], tag="mid.")
            return
        self.parents = [Parent(), Parent()]
        cls = {"delegate": Child, "proto": PChild, "proto2": PChild2,
               "proto2late": PChild2, "proto2prop": PChild2P}[kind]
        # (an instance of a subclass that adds nothing: everything the class
        #  declares, __prefix__ included, is inherited)
        cls = type(cls.__name__ + "Sub", (cls,), {})
        self.attrs = dict(ALL_ATTRS) if not kind.startswith("proto2") else \
            {"x": "x", "xx": "y"}
        if kind == "proto2prop":
            self.c = cls(plist=self.parents)
        else:
            self.c = cls(parent=self.parents[0])
        self.cur = 0
        self.P = [{"x": 1, "y": 2, "pre_q": 3, "pp_r": 4, "_t": 6,
                   "pp_t": 66, "nl": 7} for _ in range(2)]
        if not kind.startswith("proto2"):
            for m in self.P:
                m["opt_a"] = 8
        self.L = {}
        #: attributes whose handlers are attached right now ("proto2late":
        #: the handlers of x come and go during the history)
        self.unhooked = set()
        self.handlers = {}
        if kind == "proto2late":
            self.hook(self.c, ["xx"])
            self.unhooked.add("x")
            for mech in ("otc", "obs"):
                self.calls[("x", mech)] = []
        else:
            self.hook(self.c, list(self.attrs))

    def hook(self, obj, names, tag=""):
        for n in names:
            for mech in ("otc", "obs"):
                self.calls[(tag + n, mech)] = []
        calls = self.calls

        def mk_otc(key):
            def h(new):
                calls[key].append(new)
            return h

        def mk_obs(key):
            def h(ev):
                calls[key].append(ev.new)
            return h
        for n in names:
            h1, h2 = mk_otc((tag + n, "otc")), mk_obs((tag + n, "obs"))
            obj.on_trait_change(h1, n)
            obj.observe(h2, n)
            if hasattr(self, "handlers"):
                self.handlers[n] = (h1, h2)

    def unhook(self, obj, n):
        h1, h2 = self.handlers.pop(n)
        obj.on_trait_change(h1, n, remove=True)
        obj.observe(h2, n, remove=True)

    def clear(self):
        for l in self.calls.values():
            l.clear()


def menu(kind):
    evs = []
    if kind.startswith("cont-"):
        return cont_menu(kind)
    if kind.startswith("chain"):
        for v in VALS:
            evs += [("set_top", v), ("set_mid", v)]
            evs += [("set_leaf", i, v) for i in (0, 1) if v != "bad"]
        evs += [("swap", 0), ("swap", 1)]
        return evs
    attrs = ALL_ATTRS if not kind.startswith("proto2") else \
        {"x": "x", "xx": "y"}
    if kind == "proto2late":
        evs += [("hook", "x"), ("unhook", "x")]
    for a in attrs:
        for v in VALS:
            evs.append(("set_child", a, v))
        if kind.startswith("proto"):
            evs.append(("del_child", a))
        # asking about the attribute changes nothing
        evs.append(("introspect", a))
    for i in (0, 1):
        for a in attrs:
            for v in VALS[:2]:
                evs.append(("set_parent", i, attrs[a], v))
    evs += [("swap", 0), ("swap", 1)]
    return evs


def enabled(w, ev):
    if ev[0] == "hook":
        return ev[1] in w.unhooked
    if ev[0] == "unhook":
        return ev[1] not in w.unhooked
    if ev[0] == "swap":
        return w.cur != ev[1]
    if ev[0] == "del_child":
        return True         # also when there is no local value (a no-op)
    return True


def step(ctx, w, ev, hist, check):
    good = True

    def bad(kind, msg):
        nonlocal good
        good = False
        ctx.violation("C11:%s:%s:%s" % (kind, w.kind, ":".join(
            str(x) for x in ev[:2])), msg, kind=w.kind, history=hist)
    w.clear()
    ctx.tr()
    k = ev[0]
    if w.kind.startswith("chain"):
        return chain_step(ctx, w, ev, hist, bad) and good
    c = w.c
    cur = w.parents[w.cur]
    ATTRS = w.attrs
    if k == "set_child":
        a, v = ev[1], ev[2]
        tgt = ATTRS[a]
        snap = (dict(w.P[0]), dict(w.P[1]), dict(w.L))
        try:
            setattr(c, a, v)
            exc = None
        except TraitError as e:
            exc = e
        except Exception as e:
            bad("raises", "assignment raised %r" % (e,))
            return good
        if v == "bad":
            ctx.outcome("invalid-rejected")
            ctx.nontriv((w.kind, "invalid", a, repr(canon(w))))
            if exc is None:
                bad("invalid-accepted", "invalid value accepted through "
                    "deferring attribute %s" % a)
            # nothing changed anywhere (checked by the read-back below)
        else:
            if exc is not None:
                bad("valid-rejected", "valid value rejected: %s" % exc)
                return good
            if w.kind == "delegate":
                w.P[w.cur][tgt] = v
                ctx.outcome("delegated-write")
                if a in c.__dict__:
                    bad("stored-locally", "DelegatesTo write stored a local "
                        "value in the deferring object")
            else:
                w.L[a] = v
                ctx.outcome("prototype-local-write")
            ctx.nontriv((w.kind, "write", a, v, repr(canon(w))))
    elif k == "del_child":
        a = ev[1]
        try:
            delattr(c, a)
        except Exception as e:
            bad("del-raises", "deleting the local value raised %r" % (e,))
            return good
        if a in w.L:
            ctx.outcome("link-restored")
            ctx.nontriv((w.kind, "del", a, repr(canon(w))))
        w.L.pop(a, None)
    elif k == "set_parent":
        i, tgt, v = ev[1], ev[2], ev[3]
        old = w.P[i][tgt]
        setattr(w.parents[i], tgt, v)
        w.P[i][tgt] = v
        changed = old != v
        for a, t in ATTRS.items():
            if t != tgt or a in NOLISTEN or a in w.unhooked:
                continue
            linked = (i == w.cur) and (a not in w.L)
            for mech in ("otc", "obs"):
                got = w.calls[(a, mech)]
                if changed and linked:
                    ctx.outcome("linked-notified")
                    ctx.nontriv((w.kind, "notify", a, mech, repr(canon(w))))
                    if not got:
                        bad("not-forwarded:%s:%s" % (a, mech), "parent.%s "
                            "changed to %r on the current delegate but the "
                            "%s handler of %s was not called" % (
                                tgt, v, mech, a))
                    elif any(g != v for g in got):
                        bad("forwarded-wrong:%s" % a, "handler got %r, new "
                            "value is %r" % (got, v))
                elif not linked and got:
                    bad("forwarded-unlinked:%s:%s" % (a, mech),
                        "parent.%s changed on %s but the %s handler of %s "
                        "was called" % (
                            tgt, "a former/other delegate" if i != w.cur
                            else "the delegate after the link was broken",
                            mech, a))
                elif not linked:
                    ctx.outcome("former-delegate-silent" if i != w.cur
                                else "unlinked-silent")
    elif k == "swap":
        if w.kind == "proto2prop":
            c.pidx = ev[1]
        else:
            c.parent = w.parents[ev[1]]
        w.cur = ev[1]
        ctx.nontriv((w.kind, "swap", ev[1], repr(canon(w))))
    elif k == "introspect":
        a = ev[1]
        try:
            c.base_trait(a)
            c.trait(a)
            c.validate_trait(a, 5)
            try:
                c.validate_trait(a, "bad")
                bad("introspect-accepts-invalid", "validate_trait accepted "
                    "an invalid value for %s" % a)
            except TraitError:
                pass
            c.trait_names()
            c.traits()
            c.trait_get(a)
        except Exception as e:
            bad("introspect-raises", "introspection of %s raised %r"
                % (a, e))
        if any(w.calls.values()):
            bad("introspect-notified", "introspection of %s called handlers"
                % a)
    elif k == "hook":
        w.hook(c, [ev[1]])
        w.unhooked.discard(ev[1])
        w.clear()
    elif k == "unhook":
        w.unhook(c, ev[1])
        w.unhooked.add(ev[1])
    # ---- read-back: everything equals the model
    cur = w.parents[w.cur]
    for i, p in enumerate(w.parents):
        for t, want in w.P[i].items():
            got = getattr(p, t)
            if got != want:
                bad("delegate-value:%s" % t, "delegate %d has %s = %r, model "
                    "%r" % (i, t, got, want))
    for a, t in ATTRS.items():
        want = w.L[a] if a in w.L else w.P[w.cur][t]
        got = getattr(c, a)
        if got != want:
            bad("read:%s" % a, "%s reads %r, model %r (delegate %d, local "
                "override %s)" % (a, got, want, w.cur, a in w.L))
        if w.kind == "delegate" and a in c.__dict__:
            bad("stored-locally:%s" % a, "deferring object holds a local %s"
                % a)
    return good


def chain_step(ctx, w, ev, hist, bad):
    k = ev[0]
    top, mid = w.top, w.mid
    if k in ("set_top", "set_mid"):
        v = ev[1]
        obj, attr = (top, "w") if k == "set_top" else (mid, "width")
        try:
            setattr(obj, attr, v)
            exc = None
        except TraitError as e:
            exc = e
        except Exception as e:
            bad("chain-raises", "assignment through the chain raised %r"
                % (e,))
            return False
        if v == "bad":
            ctx.outcome("invalid-rejected")
            if exc is None:
                bad("invalid-accepted", "invalid value accepted through the "
                    "chain")
        else:
            if exc is not None:
                bad("valid-rejected", "valid value rejected: %s" % exc)
                return False
            old = w.M[w.cur]["width"]
            w.M[w.cur]["width"] = v
            ctx.outcome("chain-write")
            ctx.nontriv(("chain", k, v))
    elif k == "set_leaf":
        i, v = ev[1], ev[2]
        old = w.M[i]["width"]
        w.leaves[i].width = v
        w.M[i]["width"] = v
        if old != v and w.kind == "chain":
            for key in (("w", "otc"), ("w", "obs"), ("mid.width", "otc"),
                        ("mid.width", "obs")):
                got = w.calls[key]
                if i == w.cur:
                    ctx.outcome("linked-notified")
                    if not got:
                        bad("chain-not-forwarded:%s" % key[0], "leaf.width "
                            "changed but the %s handler of %s was not called"
                            % (key[1], key[0]))
                    elif any(g != v for g in got):
                        bad("chain-forwarded-wrong", "handler got %r" % got)
                elif got:
                    bad("chain-forwarded-unlinked", "former leaf changed but "
                        "%s handler called" % (key,))
                else:
                    ctx.outcome("former-delegate-silent")
    elif k == "swap":
        if w.kind == "chainprop":
            mid.current = ev[1]
        else:
            mid.leaf = w.leaves[ev[1]]
        w.cur = ev[1]
    for i, lf in enumerate(w.leaves):
        if lf.width != w.M[i]["width"]:
            bad("chain-leaf-value", "leaf %d width %r, model %r" % (
                i, lf.width, w.M[i]["width"]))
        if lf.w != -1:
            bad("chain-stray-write", "a write through the chain landed in "
                "leaf.w")
    want = w.M[w.cur]["width"]
    if top.w != want or mid.width != want:
        bad("chain-read", "top.w=%r mid.width=%r, model %r" % (
            top.w, mid.width, want))
    if "w" in top.__dict__ or "width" in mid.__dict__:
        bad("chain-stored-locally", "a chain write stored a local value")
    return True


def canon(w):
    if w.kind.startswith("chain"):
        return (w.kind, w.M, w.cur)
    return (w.kind, w.P, sorted(w.L.items()), w.cur, sorted(w.unhooked))


def strict_target(ctx):
    """one-off cells: DelegatesTo onto an undeclared name of a strict target"""
    for v in (5, "bad"):
        ctx.case({"kind": "strict", "value": v})
        ctx.ev()
        ctx.tr()
        car = Car(engine=Engine())
        try:
            car.torque = v
            ctx.violation("C11:strict-target-accepted", "a value written "
                          "through a DelegatesTo onto an undeclared name of a "
                          "HasStrictTraits delegate was accepted",
                          kind="strict", history=[["set", v]])
        except TraitError:
            ctx.outcome("invalid-rejected")
        except Exception as e:
            ctx.violation("C11:strict-target-raises", "raised %r" % (e,),
                          kind="strict", history=[["set", v]])
        if "torque" in car.engine.__dict__:
            ctx.violation("C11:strict-target-stored", "the strict delegate "
                          "now holds the undeclared name", kind="strict",
                          history=[["set", v]])
        try:
            car.torque
            ctx.violation("C11:strict-target-readable", "undeclared name "
                          "readable through the deferring attribute",
                          kind="strict", history=[["set", v], ["get"]])
        except AttributeError:
            pass
        except Exception as e:
            ctx.violation("C11:strict-target-raises", "read raised %r" % (e,),
                          kind="strict", history=[["get"]])


class EarlyParent(HasTraits):
    x = Int(1)


class EarlyChild(HasTraits):
    """assigns its prototyped attribute before the base class constructor
    has run (the listeners are set up by that constructor)"""
    parent = Instance(EarlyParent)
    x = PrototypedFrom("parent")

    def __init__(self, p, local, **kw):
        self.parent = p
        if local:
            self.x = 5
        super().__init__(**kw)


def early_assignment_cells(ctx):
    for local in (False, True):
        for then in ((), ("del",), ("del", "set"), ("set",)):
            case = {"kind": "early", "local": local, "then": list(then)}
            ctx.case(case)
            ctx.ev()
            ctx.tr()
            hist = [["early", local] + list(then)]
            p = EarlyParent()
            c = EarlyChild(p, local)
            calls = []
            c.on_trait_change(lambda new: calls.append(new), "x")
            c.observe(lambda ev: calls.append(ev.new), "x")
            has_local = local
            for op in then:
                try:
                    if op == "del":
                        del c.x
                        has_local = False
                    else:
                        c.x = 6
                        has_local = True
                except Exception as exc:
                    ctx.violation("C11:early:raises", "%s raised %r"
                                  % (op, exc), kind="early", history=hist)
            calls.clear()
            p.x = p.x + 1
            want_read = (6 if "set" in then else 5) if has_local else p.x
            if c.x != want_read:
                ctx.violation("C11:early:read", "reads %r, expected %r"
                              % (c.x, want_read), kind="early", history=hist)
            if has_local and calls:
                ctx.outcome("unlinked-silent")
                ctx.violation(
                    "C11:early:forwarded-unlinked", "the attribute was "
                    "given a local value %s; a change of the prototype "
                    "still called its handlers with %r" % (
                        "in the constructor, before the base class "
                        "constructor ran" if local and "set" not in then
                        else "later", calls), kind="early", history=hist)
            elif not has_local and sorted(calls) != [p.x, p.x]:
                ctx.violation(
                    "C11:early:not-forwarded", "linked (no local value): a "
                    "change of the prototype called the two handlers with "
                    "%r" % (calls,), kind="early", history=hist)
            else:
                ctx.outcome("unlinked-silent" if has_local
                            else "linked-notified")


def run_history(ctx, kind, hist):
    if kind.startswith("cont-"):
        w = ContWorld(kind)
        for ev in hist:
            if ev[0] == "swap" and w.cur == ev[1]:
                return None, None
            if not cont_step(ctx, w, ev, hist):
                return False, None
        refused = bool(hist) and any("bad" in str(x) for x in hist[-1])
        # the counter of fresh values is part of the state's name only
        # through the contents it produced
        return True, (cont_canon(w), refused)
    w = World(kind)
    for i, ev in enumerate(hist):
        if not enabled(w, ev):
            return None, None
        ok = step(ctx, w, ev, hist, True)
        if not ok:
            return False, None
    # a refused write leaves the visible state as it was; the history is
    # kept apart so that whatever a refusal leaves behind gets explored
    refused = bool(hist) and "bad" in [str(x) for x in hist[-1]]
    return True, (canon(w), refused)


def shards(tier):
    out = []
    for kind in ("delegate", "proto", "proto2", "proto2late", "proto2prop",
                 "chain", "chainprop", "cont-delegate", "cont-proto"):
        for i in range(len(menu(kind))):
            out.append({"kind": kind, "first": i})
    return out


def run_shard(ctx, shard, tier):
    kind = shard["kind"]
    evs = menu(kind)
    small = kind in ("proto2", "proto2late", "proto2prop", "chain",
                     "chainprop")
    depth = (5 if small else 3) if tier == "quick" else (6 if small else 4)
    frontier = [[]]
    n_exec = 0
    for d in range(1, depth + 1):
        nxt = []
        for hist in frontier:
            for ev in ([evs[shard["first"]]] if d == 1 else evs):
                h2 = hist + [ev]
                ctx.case({"kind": kind, "history": h2})
                ok, key = run_history(ctx, kind, h2)
                if ok is None:
                    continue
                ctx.ev()
                n_exec += 1
                if n_exec % 2000 == 0:
                    gc.collect()
                if ok and ctx.state((key, )):
                    nxt.append(h2)
        frontier = nxt
    if kind == "chain" and shard["first"] == 0:
        strict_target(ctx)
        early_assignment_cells(ctx)
    ctx.depth_completed = depth
    ctx.sample({"kind": kind, "history": frontier[0] if frontier
                else [evs[shard["first"]]]})


def replay(rec):
    from mc.ctx import Ctx
    ctx = Ctx("C11", None, "quick", 0)
    c = rec.get("case") or rec
    if c.get("kind") == "early" or rec.get("kind") == "early":
        early_assignment_cells(ctx)
        for v in ctx.violations.values():
            print("  violation:", v["sig"], v["msg"])
        return not ctx.violations
    if c.get("kind") == "strict" or rec.get("kind") == "strict":
        strict_target(ctx)
        for v in ctx.violations.values():
            print("  violation:", v["sig"], v["msg"])
        return not ctx.violations
    hist = [tuple(e) for e in c["history"]]
    run_history(ctx, c["kind"], hist)
    print("kind", c["kind"], "history", hist)
    for v in ctx.violations.values():
        print("  violation:", v["sig"], v["msg"])
    return not ctx.violations
