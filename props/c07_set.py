"""C07 — TraitSet refines set; faithful deltas; copies still validate."""
import copy
import itertools
import pickle

from traits.api import CInt, HasTraits, Set, TraitError
from traits.trait_set_object import TraitSet

LEVEL = "model_checking"
RULE = ("every (validator mode, subset state of the item alphabet, mutator, "
        "argument tuple of subsets in set/frozenset/list form) is executed on"
        " the real TraitSet and on a built-in set; plus every copy operation "
        "in every state; non-trivial = contents changed, event emitted or "
        "exception raised; distinct = distinct (mode, state, operation)")
EXPLANATION = ("direct exploration of the implementation; reference model = "
               "built-in set with insertions validated and membership tests "
               "either raw or validated (both readings accepted)")
BOUNDS = {"quick": "states: all subsets of 3-4 items; arguments: all subsets "
                   "of a 4-5 item alphabet, 1 argument (2 for the variadic "
                   "mutators over subsets of size<=1), depth-2 from states of"
                   " size<=1",
          "thorough": "2 arguments over all subsets for variadic mutators, "
                      "depth-2 from all states"}
ASSUMPTIONS = ["validators are pure", "items hashable except the deliberate "
               "unhashable probe"]
MIN_OUTCOMES = {t: ["event", "silent-noop", "KeyError", "TypeError",
                    "TraitError", "copy-ok"] for t in ("quick", "thorough")}
TIMEOUT = {"quick": 600, "thorough": 3000}

MODES = ("id", "coerce", "reject", "owner")
BAD = -1


def coerce_validator(x):          # module level: picklable
    if isinstance(x, str):
        if x.isdigit():
            return int(x)
        raise TraitError("bad item")
    return x


def reject_validator(x):
    if x == BAD:
        raise TraitError("bad item")
    return x


def id_validator(x):
    return x


VALIDATORS = {"id": id_validator, "coerce": coerce_validator,
              "reject": reject_validator, "owner": coerce_validator,
              # "bare": a rejecting validator and nobody listening at all
              "bare": reject_validator}


def V(mode, x):
    if mode == "owner" and not isinstance(x, (int, str)):
        raise TraitError("bad")
    return VALIDATORS[mode](x)


def alph(mode):
    """(state items, argument items)"""
    if mode == "id":
        return [1, 2, "1"], [1, 2, "1", 4]
    if mode in ("coerce", "owner"):
        return [1, 2, 3], [1, 2, "1", 4, "x"]
    return [1, 2, 3], [1, 2, 4, BAD]


def subsets(items, maxsize=None):
    out = []
    for r in range(len(items) + 1):
        if maxsize is not None and r > maxsize:
            break
        for c in itertools.combinations(items, r):
            out.append(list(c))
    return out


FORMS = {"set": set, "frozenset": frozenset, "list": list,
         "iter": lambda x: iter(list(x))}
RAWARGS = {"int": lambda: 5, "unhashable": lambda: [[]],
           "one_then_unhashable": lambda: [1, []], "none": lambda: None}


def mk(arg):
    """arg = [form, items] or ["raw", name]"""
    if arg[0] == "raw":
        return RAWARGS[arg[1]]()
    return FORMS[arg[0]](arg[1])


def do(s, op):
    name = op[0]
    if name in ("add", "discard", "remove"):
        x = [] if op[1] == "__unhashable__" else op[1]
        return getattr(s, name)(x)
    if name in ("pop", "clear"):
        return getattr(s, name)()
    if name in ("update", "difference_update", "intersection_update"):
        return getattr(s, name)(*[mk(a) for a in op[1]])
    if name == "symmetric_difference_update":
        return s.symmetric_difference_update(mk(op[1]))
    r = s
    if name == "ior":
        r |= mk(op[1])
    elif name == "iand":
        r &= mk(op[1])
    elif name == "isub":
        r -= mk(op[1])
    elif name == "ixor":
        r ^= mk(op[1])
    else:
        raise AssertionError(name)
    return r is s


def vmap(mode, arg):
    """validated version of an argument descriptor (may raise TraitError)."""
    if arg[0] == "raw":
        return arg
    return [arg[0], [V(mode, x) for x in arg[1]]]


def model(mode, before, op):
    """-> list of acceptable outcomes, each ('exc', cls) or ('ok', ret, after).
    Built from the eager reading (all arguments validated first) and the raw
    reading (only inserted items validated; membership/removal raw)."""
    name = op[0]
    outs = []

    def run(f):
        ref = set(before)
        try:
            ret = f(ref)
        except TraitError:
            outs.append(("exc", TraitError))
        except Exception as e:
            outs.append(("exc", type(e)))
        else:
            outs.append(("ok", ret, ref))

    inserting = name in ("add", "update", "ior")
    if name in ("add", "discard", "remove"):
        if op[1] == "__unhashable__":
            if mode == "owner" and name == "add":
                return [("exc", TraitError)]
            return [("exc", TypeError)]
        run(lambda ref: do(ref, (name, V(mode, op[1]))))
        if not inserting:
            run(lambda ref: do(ref, op))
    elif name in ("pop", "clear"):
        run(lambda ref: do(ref, op))
    elif name in ("update", "difference_update", "intersection_update"):
        def eager(ref):
            # a raw (non-iterable / unhashable) argument fails as in set
            args = []
            for a in op[1]:
                args.append(vmap(mode, a))
            return do(ref, (name, args))
        if any(a[0] == "raw" for a in op[1]):
            # the builtin decides the exception class; validation errors of
            # other arguments are acceptable too
            run(lambda ref: do(ref, op))
            try:
                for a in op[1]:
                    if a[0] == "raw":
                        for x in mk(a):
                            V(mode, x)
                    else:
                        vmap(mode, a)
            except TraitError:
                if inserting:
                    outs.append(("exc", TraitError))
            except TypeError:
                pass
        else:
            run(eager)
            if not inserting:
                run(lambda ref: do(ref, op))
    elif name in ("ior", "iand", "isub"):
        if op[1][0] not in ("set", "frozenset"):
            return [("exc", TypeError)]
        run(lambda ref: do(ref, (name, vmap(mode, op[1]))))
        if not inserting:
            run(lambda ref: do(ref, op))
    elif name in ("ixor", "symmetric_difference_update"):
        if name == "ixor" and op[1][0] not in ("set", "frozenset"):
            return [("exc", TypeError)]
        if op[1][0] == "raw":
            run(lambda ref: do(ref, op))
        else:
            run(lambda ref: do(ref, (name, vmap(mode, op[1]))))

            def rawread(ref):
                arg = set(op[1][1])
                removed = ref & arg
                added = {V(mode, x) for x in arg - removed} - ref
                ref -= removed
                ref |= added
                return True if name == "ixor" else None
            run(rawread)
    else:
        raise AssertionError(name)
    return outs


class Rec:
    def __init__(self):
        self.events = []

    def __call__(self, ts, removed, added):
        self.events.append((set(removed), set(added)))


ITEMS_LOG = []


class COwner(HasTraits):
    """module level, so that instances pickle"""
    s = Set(CInt)

    def __len__(self):
        return len(self.__dict__.get("s", ()))

    def _s_items_changed(self, ev):
        ITEMS_LOG.append((set(ev.removed), set(ev.added)))


class Harness:
    def __init__(self, mode, state, picklable=False):
        self.mode = mode
        self.rec = Rec()
        self.items = []
        self.obs = []
        if mode == "owner":
            items, obs = self.items, self.obs

            class Owner(HasTraits):
                s = Set(CInt)

                def __len__(self):
                    # collection-like model: falsy while its set is empty
                    return len(self.__dict__.get("s", ()))

                def _s_items_changed(self, ev):
                    items.append((set(ev.removed), set(ev.added)))
            if picklable:
                self.owner = COwner(s=set(state))
                self.s = self.owner.s
                self.n_notifiers = len(self.s.notifiers)
                return
            self.owner = Owner(s=set(state))
            self.owner.observe(
                lambda ev: obs.append((set(ev.removed), set(ev.added))),
                "s.items")
            self.s = self.owner.s
            self.s.notifiers.append(self.rec)
        elif mode == "bare":
            self.s = TraitSet(state, item_validator=VALIDATORS[mode])
        else:
            self.s = TraitSet(state, item_validator=VALIDATORS[mode],
                              notifiers=[self.rec])
        self.n_notifiers = len(self.s.notifiers)

    def clear_logs(self):
        self.rec.events.clear()
        self.items.clear()
        self.obs.clear()


def typed(s):
    return sorted((type(x).__name__, repr(x)) for x in s)


def check_event(before, after, ev):
    removed, added = ev
    if not removed <= before:
        return "removed %r not a subset of previous contents %r" % (
            removed, before)
    if added & before:
        return "added %r not disjoint from previous contents" % (added,)
    if (before - removed) | added != after:
        return "(before - removed) | added = %r, contents are %r" % (
            (before - removed) | added, after)
    return None


def step(ctx, h, ref, op, tag):
    mode = h.mode
    before = set(ref)
    ctx.tr()
    outs = model(mode, before, op)
    h.clear_logs()
    try:
        ret = do(h.s, op)
        exc = None
    except Exception as e:
        ret, exc = None, type(e)
    after = set(h.s)
    evs = list(h.rec.events)
    good = True

    def bad(kind, msg):
        nonlocal good
        good = False
        ctx.violation("C07:%s:%s:%s" % (kind, op[0], mode), msg, mode=mode,
                      before=typed(before), op=op, tag=tag,
                      observed={"exc": exc and exc.__name__,
                                "after": typed(after), "events": repr(evs),
                                "items": repr(h.items), "obs": repr(h.obs)},
                      expected=[(o[0], o[1].__name__) if o[0] == "exc" else
                                ("ok", repr(o[1]), typed(o[2])) for o in outs])

    if len(h.s.notifiers) != h.n_notifiers:
        bad("hooks", "notifier list altered")
    ref.clear()
    ref.update(after)
    if exc is not None:
        ctx.outcome(exc.__name__)
        ctx.nontriv((mode, typed(before), op))
        if ("exc", exc) not in [o[:2] for o in outs]:
            bad("exc-class", "raised %s; acceptable: %s" % (
                exc.__name__, [o[1].__name__ if o[0] == "exc" else "ok"
                               for o in outs]))
        if typed(after) != typed(before):
            bad("failed-op-mutated", "failing operation changed contents")
        if evs or h.items or h.obs:
            bad("failed-op-notified", "failing operation notified")
        return good
    oks = [o for o in outs if o[0] == "ok"]
    if not oks:
        bad("missing-exc", "succeeded where set raises %s"
            % [o[1].__name__ for o in outs])
        return good
    if op[0] == "pop":
        if ret not in before or after != before - {ret}:
            bad("pop", "pop returned %r, contents %r" % (ret, after))
    else:
        if not any(typed(o[2]) == typed(after) and o[1] == ret for o in oks):
            bad("contents", "contents/return differ from built-in set")
    if after != before:
        ctx.nontriv((mode, typed(before), op))
        ctx.outcome("event")
        logs = [("raw", evs)] if mode != "bare" else []
        if mode == "owner":
            logs += [("items", h.items), ("observer", h.obs)]
        for lname, log in logs:
            if len(log) != 1:
                bad("event-count", "contents changed but %d %s events"
                    % (len(log), lname))
            else:
                err = check_event(before, after, log[0])
                if err:
                    bad("event", "%s: %s" % (lname, err))
    else:
        if evs or h.items or h.obs:
            bad("noop-notified", "nothing changed but %d/%d/%d events were "
                "emitted" % (len(evs), len(h.items), len(h.obs)))
        else:
            ctx.outcome("silent-noop")
    return good


def ops_for(mode, tier, light=False):
    _, aitems = alph(mode)
    ops = []
    for x in aitems + ["__unhashable__"]:
        ops += [("add", x), ("discard", x), ("remove", x)]
    ops += [("pop",), ("clear",)]
    subs = subsets(aitems, 2 if light else None)
    forms1 = ["set"] if light else ["set", "frozenset", "list", "iter"]
    for sub in subs:
        for form in forms1:
            a = [form, sub]
            if form != "iter":
                ops += [("ior", a), ("iand", a), ("isub", a), ("ixor", a)]
            ops += [("symmetric_difference_update", a), ("update", [a]),
                    ("difference_update", [a]), ("intersection_update", [a])]
    for name in ("update", "difference_update", "intersection_update"):
        ops.append((name, []))
    two = subsets(aitems, 1 if (tier == "quick" or light) else None)
    for s1 in two:
        for s2 in two:
            for name in ("update", "difference_update",
                         "intersection_update"):
                ops.append((name, [["list", s1], ["set", s2]]))
    if not light:
        for r in RAWARGS:
            a = ["raw", r]
            ops += [("ior", a), ("ixor", a), ("isub", a), ("iand", a),
                    ("symmetric_difference_update", a), ("update", [a]),
                    ("difference_update", [a]), ("intersection_update", [a])]
            for name in ("update", "difference_update",
                         "intersection_update"):
                ops.append((name, [["list", [1]], a]))
                ops.append((name, [["list", [4]], a]))
    return ops


COPIES = ["copy"] + ["deepcopy"] + ["pickle%d" % p for p in range(6)] + \
    ["deepcopy-value", "owner-collected", "copy-value"]


def copy_check(ctx, mode, state):
    """Copy operations on a TraitSet in state `state` (and for mode 'owner',
    on the TraitSetObject through its owner)."""
    _, aitems = alph(mode)
    invalid = {"coerce": "x", "owner": "x", "reject": BAD}.get(mode)
    for how in COPIES:
        ctx.case({"mode": mode, "before": state, "copy": how})
        ctx.ev()
        ctx.tr()
        h = Harness(mode, state, picklable=True)
        src = h.owner if mode == "owner" else h.s

        def bad(kind, msg):
            ctx.violation("C07:copy-%s:%s:%s" % (kind, how, mode), msg,
                          mode=mode, before=state, copy=how)
        try:
            if how == "copy":
                if mode == "owner":
                    continue         # whole-object shallow copy: C14's subject
                dup = copy.copy(src)
            elif how == "deepcopy-value":
                if mode != "owner":
                    continue
                # deep copy of the trait value itself (detached from owner)
                dup = COwner()
                dup.__dict__["s"] = copy.deepcopy(src.s)
            elif how == "copy-value":
                if mode != "owner":
                    continue
                # shallow copy of the trait value itself
                dup = COwner()
                dup.__dict__["s"] = copy.copy(src.s)
            elif how == "owner-collected":
                if mode != "owner":
                    continue
                # the value outlives its owner
                import gc
                dup = COwner()
                keep = src.s
                h.owner = src = None
                gc.collect()
                dup.__dict__["s"] = keep
            elif how == "deepcopy":
                dup = copy.deepcopy(src)
            else:
                dup = pickle.loads(pickle.dumps(src, int(how[-1])))
        except Exception as e:
            bad("raises", "%s raised %s: %s" % (how, type(e).__name__, e))
            continue
        s2 = dup.s if mode == "owner" else dup
        if how == "owner-collected":
            h.s = type(s2)(s2.trait, None, s2.name, set(s2))
        if set(s2) != set(h.s) or typed(s2) != typed(h.s):
            bad("unequal", "copy %r != original %r" % (set(s2), set(h.s)))
        if type(s2) is not type(h.s):
            bad("class", "copy is a %s" % type(s2).__name__)
        if s2 is h.s:
            bad("same", "copy is the original object")
        # the copy still validates
        if invalid is not None:
            before = set(s2)
            try:
                s2.add(invalid)
                bad("no-validation", "copy accepted the invalid item %r"
                    % (invalid,))
            except TraitError:
                if set(s2) != before:
                    bad("no-validation", "rejected add changed the copy")
            try:
                s2.update([4, invalid])
                bad("no-validation", "copy.update accepted invalid item")
            except TraitError:
                pass
        if mode in ("coerce", "owner"):
            s2.add("4")
            if 4 not in s2 or "4" in s2:
                bad("no-conversion", "copy stored an unconverted item: %r"
                    % (typed(s2),))
            s2 |= {"5"}
            if 5 not in s2 or "5" in s2:
                bad("no-conversion", "copy |= stored an unconverted item")
        # independence
        if 4 in h.s or 5 in h.s or h.rec.events:
            bad("shared", "mutating the copy affected the original")
        ctx.outcome("copy-ok")
        ctx.nontriv((mode, state, how))


def set_member_cells(ctx):
    """sets whose members are frozensets, and set-valued arguments to the
    lookup operations (the built-in looks a set argument up as the equal
    frozenset): lock-step with the built-in, event laws as everywhere"""
    fs = frozenset
    members = [fs({1}), fs({2}), 5]
    args = [{1}, {2}, {9}, set(), fs({1}), fs({9}), TraitSet({1}), 5, 9]
    states_ = [list(c) for r in range(len(members) + 1)
               for c in itertools.combinations(members, r)]
    for st in states_:
        for opname in ("discard", "remove", "add", "contains"):
            for ai, arg in enumerate(args):
                if opname == "add" and isinstance(arg, set):
                    pass        # unhashable: TypeError on both sides
                case = {"mode": "set-members", "before": [repr(x) for x in st],
                        "op": opname, "arg": ai}
                ctx.case(case)
                ctx.ev()
                ctx.tr()
                rec = Rec()
                ts = TraitSet(st, notifiers=[rec])
                ref = set(st)
                before = set(ref)

                def run(target):
                    try:
                        if opname == "contains":
                            return ("ok", arg in target)
                        getattr(target, opname)(arg)
                        return ("ok", None)
                    except Exception as e:
                        return ("exc", type(e).__name__)
                want, got = run(ref), run(ts)

                def bad(kind, msg):
                    ctx.violation("C07:set-members:%s:%s" % (kind, opname),
                                  msg, **case)
                if got != want:
                    bad("outcome", "%s(%r) on %r: %r, built-in set %r" % (
                        opname, arg, before, got, want))
                if set(ts) != ref:
                    bad("contents", "%s(%r) on %r leaves %r, built-in set "
                        "%r" % (opname, arg, before, set(ts), ref))
                    continue
                if got[0] == "exc":
                    ctx.outcome(got[1])
                    if rec.events:
                        bad("failed-op-notified", "a failing %s notified"
                            % opname)
                    continue
                if ref != before:
                    ctx.outcome("event")
                    if len(rec.events) != 1:
                        bad("event-count", "%s(%r) changed %r to %r with %d "
                            "notification(s)" % (opname, arg, before, ref,
                                                 len(rec.events)))
                    else:
                        err = check_event(before, ref, rec.events[0])
                        if err:
                            bad("event", err)
                elif rec.events:
                    bad("noop-event", "nothing changed but %r was notified"
                        % (rec.events,))
                else:
                    ctx.outcome("silent-noop")


def shards(tier):
    out = [{"kind": "set-members", "mode": "id"}]
    n = 4 if tier == "quick" else 8
    for mode in MODES:
        for c in range(n):
            out.append({"kind": "all", "mode": mode, "chunk": c, "of": n})
            out.append({"kind": "depth2", "mode": mode, "chunk": c, "of": n})
        out.append({"kind": "copy", "mode": mode})
    out.append({"kind": "all", "mode": "bare", "chunk": 0, "of": 1})
    return out


def run_shard(ctx, shard, tier):
    mode = shard["mode"]
    sitems, _ = alph(mode)
    sts = subsets(sitems)
    if shard["kind"] == "set-members":
        set_member_cells(ctx)
        ctx.depth_completed = 1
        return
    if shard["kind"] == "copy":
        for st in sts:
            ctx.state((mode, st))
            copy_check(ctx, mode, st)
        ctx.depth_completed = 1
        return
    sts = sts[shard["chunk"]::shard["of"]]
    if shard["kind"] == "all":
        ops = ops_for(mode, tier)
        for st in sts:
            ctx.state((mode, typed(st)))
            for op in ops:
                ctx.case({"mode": mode, "before": st, "ops": [op]})
                ctx.ev()
                h = Harness(mode, st)
                ref = set(st)
                step(ctx, h, ref, op, "all")
                ctx.state((mode, typed(ref)))
        if sts:
            ctx.sample({"mode": mode, "before": sts[-1],
                        "op": ops[len(ops) // 2]})
        ctx.depth_completed = 1
    else:
        ops = ops_for(mode, tier, light=True)
        if tier == "quick":
            sts = [s for s in sts if len(s) <= 1]
        for st in sts:
            for op1 in ops:
                for op2 in ops:
                    ctx.case({"mode": mode, "before": st, "ops": [op1, op2]})
                    ctx.ev()
                    h = Harness(mode, st)
                    ref = set(st)
                    if not step(ctx, h, ref, op1, "depth2"):
                        break
                    step(ctx, h, ref, op2, "depth2")
                    ctx.state((mode, typed(ref)))
        ctx.depth_completed = 2


def replay(rec):
    from mc.ctx import Ctx
    ctx = Ctx("C07", None, "quick", 0)
    case = rec["case"]
    mode = case["mode"]
    if mode == "set-members":
        set_member_cells(ctx)
        for v in ctx.violations.values():
            print("  violation:", v["sig"], v["msg"])
        return not ctx.violations
    if "copy" in case:
        global COPIES
        COPIES = [case["copy"]]
        copy_check(ctx, mode, case["before"])
    else:
        h = Harness(mode, case["before"])
        ref = set(case["before"])
        for op in case["ops"]:
            op = tuple(op)
            step(ctx, h, ref, op, "replay")
            print("op", op, "->", set(h.s), "events", h.rec.events)
    for v in ctx.violations.values():
        print("  violation:", v["sig"], v["msg"])
        print("  expected:", v["record"].get("expected"))
        print("  observed:", v["record"].get("observed"))
    return not ctx.violations
