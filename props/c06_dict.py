"""C06 — TraitDict refines dict; events are faithful deltas.

All states (ordered dicts over a 3-key alphabet) x all operations, on a raw
TraitDict with custom validators and on a Dict(CInt, Str) trait value with an
`_items` handler, an observe("d.items") handler and a raw notifier placed
*after* the observer's notifier.
"""
import itertools

from traits.api import (CInt, Dict, HasTraits, Str, TraitError, TraitType,
                        Undefined)
from traits.trait_dict_object import TraitDict

LEVEL = "model_checking"
RULE = ("every (validator mode, ordered dict state over 3 keys x 2 values, "
        "operation with every argument in the alphabet) is executed on the "
        "real TraitDict and on a built-in dict; non-trivial = contents "
        "changed, an event was emitted or an exception raised; distinct = "
        "distinct (mode, state, operation)")
EXPLANATION = ("direct exploration of the implementation; reference model = "
               "built-in dict on validated keys/values (lookups raw, "
               "insertions validated, setdefault = raw lookup then "
               "__setitem__)")
BOUNDS = {"quick": "3 keys (two colliding under coercion), 2 values, update "
                   "arguments of size 0..2, depth-2 on states of size<=1",
          "thorough": "update arguments of size 0..3, depth-2 on all states"}
ASSUMPTIONS = ["validators are pure", "keys hashable except the one "
               "deliberately unhashable probe"]
MIN_OUTCOMES = {t: ["event", "silent-noop", "nonempty-event-on-noop",
                    "KeyError", "TypeError", "ValueError", "TraitError",
                    "observer-event", "items-event"]
                for t in ("quick", "thorough")}
TIMEOUT = {"quick": 600, "thorough": 3000}

MODES = ("id", "coerce", "reject", "owner", "ownera")
#: "ownera": the owner mode with a value trait that turns "a" into the
#: library's Undefined and "b" into None (values that code paths written
#: with `.get(key, Undefined)` or `is None` tests mistake for "absent")
OWN = ("owner", "ownera")
UNHASH = "__unhashable__"
SENT = {"a": Undefined, "b": None}


class Sentinels(TraitType):
    def validate(self, object, name, value):
        if not isinstance(value, str):
            self.error(object, name, value)
        return SENT.get(value, value)


def kv_model(mode, k):
    if k == UNHASH:
        if mode in OWN:
            raise TraitError("bad key")       # CInt rejects a list
        return []
    if mode in ("coerce",) + OWN and isinstance(k, str):
        if k.isdigit():
            return int(k)
        raise TraitError("bad key")
    if mode == "reject" and k == "bad":
        raise TraitError("bad key")
    return k


def vv_model(mode, v):
    if mode == "coerce" and isinstance(v, int):
        return str(v)
    if mode in OWN and not isinstance(v, str):
        raise TraitError("bad value")
    if mode == "ownera":
        return SENT.get(v, v)
    if mode == "reject" and v == "bad":
        raise TraitError("bad value")
    return v


def validators(mode):
    if mode == "id":
        return None, None

    def kv(k):
        return kv_model(mode, UNHASH if isinstance(k, list) else k)

    def vv(v):
        return vv_model(mode, v)
    return kv, vv


def keys_for(mode):
    if mode == "id":
        return [1, 2, "1"], [1, 2, "1", 3]
    if mode in ("coerce",) + OWN:
        return [1, 2], [1, 2, "1", 3, "x"]       # state keys, argument keys
    return [1, 2], [1, 2, "bad", 3]


def vals_for(mode):
    if mode == "coerce":
        return ["a", "b"], ["a", "b", 7]
    if mode in OWN:
        return ["a", "b"], ["a", "b", 7]
    if mode == "reject":
        return ["a", "b"], ["a", "b", "bad"]
    return ["a", "b"], ["a", "b"]


def states(mode):
    skeys, _ = keys_for(mode)
    svals, _ = vals_for(mode)
    out = []
    for r in range(len(skeys) + 1):
        for ks in itertools.permutations(skeys, r):
            for vs in itertools.product(svals, repeat=r):
                out.append([[k, v] for k, v in zip(ks, vs)])
    return out


def real(x):
    return [] if x == UNHASH else x


def mk_arg(form, pairs):
    pairs = [(real(k), v) for k, v in pairs]
    if form == "dict":
        return dict(pairs)
    if form == "pairs":
        return list(pairs)
    if form == "iter":
        return iter(list(pairs))
    if form == "traitdict":
        return TraitDict(dict(pairs))
    raise AssertionError(form)


def do(d, op):
    name = op[0]
    if name == "setitem":
        d[real(op[1])] = op[2]
    elif name == "delitem":
        del d[real(op[1])]
    elif name == "update":
        return d.update(mk_arg(op[1], op[2]))
    elif name == "ior":
        r = d
        r |= mk_arg(op[1], op[2])
        return r is d
    elif name == "update_raw":
        return d.update(RAW[op[1]]())
    elif name == "ior_raw":
        r = d
        r |= RAW[op[1]]()
        return r is d
    elif name == "setdefault":
        return d.setdefault(real(op[1]), *op[2:])
    elif name == "pop":
        return d.pop(real(op[1]), *op[2:])
    elif name == "popitem":
        return d.popitem()
    elif name == "clear":
        return d.clear()
    else:
        raise AssertionError(name)


RAW = {"int": lambda: 5, "list_of_int": lambda: [1],
       "triple": lambda: [(1, "a", "b")], "str2": lambda: ["1a"],
       "str": lambda: "ab", "none": lambda: None}


def model(mode, before, op):
    """-> (acceptable exception classes, (ret, after) or None)"""
    ref = dict(before)
    name = op[0]
    val_exc = False
    try:
        if name == "setitem":
            try:
                k, v = kv_model(mode, op[1]), vv_model(mode, op[2])
            except TraitError:
                val_exc = True
                ref[real(op[1])] = op[2]
            else:
                ref[k] = v
            ret = None
        elif name in ("update", "ior"):
            form, pairs = op[1], op[2]
            seq = pairs
            if form == "dict":
                seq = list(dict((real(k) if k != UNHASH else k, v)
                                for k, v in pairs).items())
            try:
                vp = [(kv_model(mode, k), vv_model(mode, v)) for k, v in seq]
            except TraitError:
                val_exc = True
                vp = [(real(k), v) for k, v in seq]
            ref.update(vp)
            ret = None if name == "update" else True
        elif name in ("update_raw", "ior_raw"):
            probe = dict(before)
            if name == "update_raw":
                probe.update(RAW[op[1]]())      # raises what dict raises
            else:
                probe |= RAW[op[1]]()
            seq = [(k, v) for k, v in RAW[op[1]]()]
            try:
                vp = [(kv_model(mode, k), vv_model(mode, v)) for k, v in seq]
            except TraitError:
                val_exc = True
                vp = []
            ref.update(vp)
            ret = None if name == "update_raw" else True
        elif name == "setdefault":
            k = real(op[1])
            v = op[2] if len(op) > 2 else None
            if k in ref:
                ret = ref[k]
            else:
                try:
                    vk, vv = kv_model(mode, op[1]), vv_model(mode, v)
                except TraitError:
                    val_exc = True
                    ref[k] = v
                    ret = None
                else:
                    ref[vk] = vv
                    ret = vv
        else:
            ret = do(ref, op)
    except Exception as e:
        acc = {type(e)}
        if val_exc:
            acc.add(TraitError)
        return acc, None
    if val_exc:
        return {TraitError}, None
    if name == "pop" and op[1] == UNHASH and len(op) > 2 and not before:
        # CPython's dict.pop(key, default) on an *empty* dict returns the
        # default without hashing the key; raising TypeError like every
        # other unhashable lookup is accepted too (see DESIGN.md section 9).
        return {TypeError}, (ret, ref)
    return set(), (ret, ref)


class Rec:
    def __init__(self):
        self.events = []

    def __call__(self, td, removed, added, changed):
        self.events.append((dict(removed), dict(added), dict(changed)))


def check_event(before, after, ev):
    removed, added, changed = ev
    if not (removed or added or changed):
        return "event with all three parts empty"
    for k, v in added.items():
        if k in before:
            return "added key %r was present before" % (k,)
        if k not in after or after[k] != v:
            return "added key %r does not hold the given value" % (k,)
    for k, v in changed.items():
        if k not in before or before[k] != v:
            return "changed key %r did not hold the given old value" % (k,)
        if k not in after:
            return "changed key %r is gone" % (k,)
    for k, v in removed.items():
        if k not in before or before[k] != v:
            return "removed key %r did not hold the given value" % (k,)
        if k in after:
            return "removed key %r is still present" % (k,)
    prev = dict(after)
    for k in added:
        prev.pop(k, None)
    for k, v in changed.items():
        prev[k] = v
    prev.update(removed)
    if prev != before:
        return "reconstruction gives %r, previous contents were %r" % (
            prev, before)
    return None


class MissingDict(TraitDict):
    """a user subclass with a default for absent keys on lookup (like
    collections.Counter); the mutators behave as on any dict"""

    def __missing__(self, key):
        return 0


class Harness:
    """A live TraitDict in one of the modes plus its recorders."""

    def __init__(self, mode, state, bare=False):
        self.mode = mode
        self.variant = bare if isinstance(bare, str) else None
        bare = bare is True
        self.bare = bare
        self.rec = Rec()
        self.obs = []
        self.items = []
        if mode in OWN:
            obs, items = self.obs, self.items

            class Owner(HasTraits):
                d = Dict(CInt, Str if mode == "owner" else Sentinels())

                def __len__(self):
                    # collection-like model: falsy while its dict is empty
                    return len(self.__dict__.get("d", ()))

                def _d_items_changed(self, ev):
                    items.append((dict(ev.removed), dict(ev.added),
                                  dict(ev.changed)))
            self.owner = Owner(d=dict((k, v) for k, v in state))
            self.owner.observe(
                lambda ev: obs.append((dict(ev.removed), dict(ev.added))),
                "d.items")
            self.d = self.owner.d
            self.d.notifiers.append(self.rec)
        else:
            kv, vv = validators(mode)
            cls = MissingDict if self.variant == "missing" else TraitDict
            self.d = cls(dict((k, v) for k, v in state),
                         key_validator=kv, value_validator=vv,
                         notifiers=[] if bare else [self.rec])
        self.n_notifiers = len(self.d.notifiers)

    def clear_logs(self):
        self.rec.events.clear()
        self.obs.clear()
        self.items.clear()


def step(ctx, h, ref, op, tag):
    mode = h.mode
    before = dict(ref)
    ctx.tr()
    acc, ok = model(mode, before, op)
    h.clear_logs()
    try:
        ret = do(h.d, op)
        exc = None
    except Exception as e:
        ret, exc = None, type(e)
    after = dict(h.d)
    evs = list(h.rec.events)
    good = True

    def bad(kind, msg):
        nonlocal good
        good = False
        ctx.violation("C06:%s:%s:%s" % (kind, op[0], mode), msg, mode=mode,
                      before=list(before.items()), op=op, tag=tag,
                      observed={"exc": exc and exc.__name__,
                                "after": list(after.items()),
                                "events": repr(evs), "observer": repr(h.obs),
                                "items": repr(h.items)},
                      expected={"exc": sorted(c.__name__ for c in acc),
                                "after": ok and list(ok[1].items())})

    if len(h.d.notifiers) != h.n_notifiers:
        bad("hooks", "notifier list altered")
    if exc is not None:
        ctx.outcome(exc.__name__)
        ctx.nontriv((mode, list(before.items()), op))
        if ok is not None and exc not in acc:
            bad("spurious-exc", "raised %s where dict succeeds" % exc.__name__)
        elif ok is None and exc not in acc:
            bad("exc-class", "raised %s, dict raises %s" % (
                exc.__name__, sorted(c.__name__ for c in acc)))
        if after != before or list(after) != list(before):
            bad("failed-op-mutated", "failing operation changed contents")
        if evs or h.obs or h.items:
            bad("failed-op-notified", "failing operation notified")
        return good
    if ok is None:
        bad("missing-exc", "succeeded where dict raises %s"
            % sorted(c.__name__ for c in acc))
        ref.clear()
        ref.update(after)
        return good
    eret, eafter = ok
    if after != eafter or list(after) != list(eafter) or \
            [type(k) for k in after] != [type(k) for k in eafter] or \
            [type(v) for v in after.values()] != \
            [type(v) for v in eafter.values()]:
        bad("contents", "contents (or key order/types) differ from dict")
    if ret != eret or type(ret) is not type(eret):
        bad("return", "return value %r, dict returns %r" % (ret, eret))
    ref.clear()
    ref.update(after)
    if after != before:
        ctx.nontriv((mode, list(before.items()), op))
        ctx.outcome("event")
        if h.bare:
            pass            # nobody is listening
        elif len(evs) != 1:
            bad("event-count", "contents changed but %d events" % len(evs))
        else:
            err = check_event(before, after, evs[0])
            if err:
                bad("event", err)
            if mode in OWN:
                rm, ad, ch = evs[0]
                if len(h.items) != 1:
                    bad("items-count", "%d _items events" % len(h.items))
                else:
                    ctx.outcome("items-event")
                    err = check_event(before, after, h.items[0])
                    if err:
                        bad("items-event", err)
    else:
        if not evs:
            ctx.outcome("silent-noop")
        else:
            ctx.outcome("nonempty-event-on-noop")
            ctx.nontriv((mode, list(before.items()), op))
        for logname, log in (("raw", evs), ("items", h.items)):
            for e in log:
                if not (e[0] or e[1] or e[2]):
                    bad("empty-event", "nothing changed but an all-empty %s "
                        "event was emitted" % logname)
    if mode in OWN:
        # the observer's DictChangeEvent is the documented merge of the raw
        # notification: changed keys folded into removed (old) / added (new)
        if len(h.obs) != len(evs) or len(h.items) != len(evs):
            bad("observer-count", "%d raw, %d _items, %d observer events"
                % (len(evs), len(h.items), len(h.obs)))
        else:
            for (rm, ad, ch), (orm, oad), it in zip(evs, h.obs, h.items):
                ctx.outcome("observer-event")
                exp_rm = dict(rm)
                exp_rm.update(ch)
                exp_ad = dict(ad)
                exp_ad.update((k, after[k]) for k in ch if k in after)
                if orm != exp_rm or oad != exp_ad:
                    bad("observer-event", "DictChangeEvent removed=%r "
                        "added=%r is not the merge of removed=%r added=%r "
                        "changed=%r" % (orm, oad, rm, ad, ch))
                if it != (rm, ad, ch):
                    bad("items-event", "_items event %r differs from the raw"
                        " notification %r" % (it, (rm, ad, ch)))
    return good


def arg_pairs(mode, maxsize):
    _, akeys = keys_for(mode)
    _, avals = vals_for(mode)
    cells = [(k, v) for k in akeys for v in avals]
    out = [[]]
    for r in range(1, maxsize + 1):
        for combo in itertools.product(cells, repeat=r):
            out.append([list(c) for c in combo])
    return out


def ops_for(mode, tier, light=False):
    _, akeys = keys_for(mode)
    _, avals = vals_for(mode)
    ops = []
    for k in akeys + [UNHASH]:
        for v in avals:
            ops.append(("setitem", k, v))
        ops.append(("delitem", k))
        ops.append(("pop", k))
        ops.append(("pop", k, "dflt"))
        ops.append(("pop", k, None))
        ops.append(("pop", k, "a"))
        ops.append(("setdefault", k))
        for v in avals:
            ops.append(("setdefault", k, v))
    ops += [("popitem",), ("clear",)]
    maxsize = 1 if light else (2 if tier == "quick" else 3)
    for pairs in arg_pairs(mode, maxsize):
        forms = ["dict", "pairs"] if (light or len(pairs) > 2) else \
            ["dict", "pairs", "iter", "traitdict"]
        for form in forms:
            if form in ("dict", "traitdict") and \
                    len({repr(p[0]) for p in pairs}) != len(pairs):
                continue
            ops.append(("update", form, pairs))
            ops.append(("ior", form, pairs))
    ops.append(("update", "pairs", [[UNHASH, "a"]]))
    for r in RAW:
        ops.append(("update_raw", r))
        ops.append(("ior_raw", r))
    return ops


def init_ref(mode, st):
    """model contents of a state given as [key, value token] pairs"""
    if mode == "ownera":
        return dict((k, SENT.get(v, v)) for k, v in st)
    return dict((k, v) for k, v in st)


def shards(tier):
    out = []
    for mode in MODES:
        sts = states(mode)
        nchunks = 4 if tier == "quick" else 8
        for c in range(nchunks):
            out.append({"kind": "all", "mode": mode, "chunk": c,
                        "of": nchunks})
        for c in range(nchunks):
            out.append({"kind": "depth2", "mode": mode, "chunk": c,
                        "of": nchunks})
    out.append({"kind": "all", "mode": "bare", "chunk": 0, "of": 1})
    out.append({"kind": "all", "mode": "missing", "chunk": 0, "of": 1})
    return out


def run_shard(ctx, shard, tier):
    mode = shard["mode"]
    # "bare": the rejecting validators and no notifier at all
    bare = mode == "bare"
    if mode == "missing":
        bare = "missing"            # (a variant of the "id" mode)
    mode = "reject" if bare is True else ("id" if bare else mode)
    sts = states(mode)[shard["chunk"]::shard["of"]]
    if shard["kind"] == "all":
        ops = ops_for(mode, tier)
        for st in sts:
            ctx.state((shard["mode"], st))
            for op in ops:
                ctx.case({"mode": mode, "before": st, "ops": [op],
                          "bare": bare})
                ctx.ev()
                h = Harness(mode, st, bare=bare)
                ref = init_ref(mode, st)
                step(ctx, h, ref, op, "all")
                ctx.state((mode, list(ref.items())))
        ctx.sample({"mode": mode, "before": sts[-1], "op": ops[len(ops) // 3]})
        ctx.depth_completed = 1
    else:
        ops = ops_for(mode, tier, light=True)
        if tier == "quick":
            sts = [s for s in sts if len(s) <= 1]
        for st in sts:
            for op1 in ops:
                for op2 in ops:
                    ctx.case({"mode": mode, "before": st, "ops": [op1, op2]})
                    ctx.ev()
                    h = Harness(mode, st)
                    ref = init_ref(mode, st)
                    if not step(ctx, h, ref, op1, "depth2"):
                        break
                    step(ctx, h, ref, op2, "depth2")
                    ctx.state((mode, list(ref.items())))
        ctx.depth_completed = 2


def replay(rec):
    from mc.ctx import Ctx
    ctx = Ctx("C06", None, "quick", 0)
    case = rec["case"]
    mode = case["mode"]
    h = Harness(mode, case["before"], bare=case.get("bare", False))
    ref = init_ref(mode, case["before"])
    for op in case["ops"]:
        op = tuple(op)
        step(ctx, h, ref, op, "replay")
        print("op", op, "->", dict(h.d), "events", h.rec.events,
              "observer", h.obs, "items", h.items)
    for v in ctx.violations.values():
        print("  violation:", v["sig"], v["msg"])
        print("  expected:", v["record"].get("expected"))
        print("  observed:", v["record"].get("observed"))
    return not ctx.violations
