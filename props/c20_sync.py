"""C20 — synchronised traits converge and stop when unsynchronised."""
import gc
import sys
import weakref

from traits.api import HasTraits, Int, List, Property, \
    push_exception_handler, pop_exception_handler

LEVEL = "model_checking"
RULE = ("every history up to the depth bound over sync/unsync (mutual, "
        "one-way, alias, second partner; scalar and list traits), scalar "
        "assignments on every side, every list mutator on either side's list "
        "(incl. extended-slice set/delete), and garbage collection of a "
        "partner; state = (attribute values, link graph, liveness); "
        "non-trivial = a step that propagated, was blocked by direction, or "
        "followed an unsync/collection; distinct = distinct (state, event)")
EXPLANATION = ("direct exploration; reference model = the directed link "
               "graph with transitive propagation")
BOUNDS = {"quick": "depth 3 over ~100 events with dedup (reduced menu at the last level)", "thorough":
          "depth 4 (reduced menu at the last level)"}
ASSUMPTIONS = ["Dict/Set items are documented as not synchronised",
               "3 objects"]
MIN_OUTCOMES = {t: ["propagated", "one-way-blocked", "list-propagated",
                    "after-unsync-silent", "after-gc-silent",
                    "tables-baseline", "extended-slice"]
                for t in ("quick", "thorough")}
TIMEOUT = {"quick": 1200, "thorough": 7200}


class S(HasTraits):
    x = Int
    y = Int
    l = List(Int)
    m = List(Int)
    #: a List trait whose default comes from a method (its compiled default
    #: kind is "callable", it is a list trait all the same)
    ld = List(Int)
    #: a list trait whose own name contains "_items"
    line_items = List(Int)

    def _ld_default(self):
        return [1, 2, 3]

    #: a partner attribute whose setter refuses the value 2 with a
    #: non-TraitError exception (pushes of 2 are dropped, nothing else)
    pz = Property(Int)

    def _get_pz(self):
        return self.__dict__.get("_pz", 0)

    def _set_pz(self, value):
        if value == 2:
            raise ValueError("pz refuses 2")
        old = self.__dict__.get("_pz", 0)
        self.__dict__["_pz"] = value
        self.trait_property_changed("pz", old, value)


SYNCS = [("a", "b", "ld", "ld", True), ("a", "b", "x", "pz", True),
         ("a", "b", "x", "x", True), ("a", "b", "x", "y", True),
         ("a", "b", "x", "x", False), ("a", "c", "x", "x", True),
         ("a", "b", "l", "l", True), ("a", "b", "l", "m", True),
         ("a", "b", "l", "l", False), ("a", "c", "l", "l", True)]
LIST_OPS = ["append", "insert0", "pop", "del0", "setitem0", "slice_set",
            "ext_set", "ext_del", "iadd", "imul", "sort", "reverse", "clear",
            "assign", "neg_ext_del"]


def menu():
    evs = [("sync",) + s for s in SYNCS] + [("unsync",) + s for s in SYNCS]
    for o in ("a", "b", "c"):
        for attr in ("x", "y"):
            for v in (1, 2):
                evs.append(("set", o, attr, v))
    evs += [("set", "b", "pz", 1), ("set", "b", "pz", 3)]
    for o, attr in (("a", "l"), ("b", "l"), ("b", "m"), ("c", "l")):
        for op in LIST_OPS:
            evs.append(("lop", o, attr, op))
    for o in ("a", "b"):
        for op in ("append", "ext_del", "setitem0", "assign"):
            evs.append(("lop", o, "ld", op))
    # deletion (= reset to the default) of a synchronised attribute
    for o in ("a", "b"):
        for attr in ("x", "l"):
            evs.append(("del", o, attr))
    evs += [("gc", "b"), ("gc", "c")]
    return evs


def list_op(lst, op):
    if op == "append":
        lst.append(7)
    elif op == "insert0":
        lst.insert(0, 8)
    elif op == "pop":
        lst.pop()
    elif op == "del0":
        del lst[0]
    elif op == "setitem0":
        lst[0] = lst[0] + 10
    elif op == "slice_set":
        lst[0:1] = [5, 6]
    elif op == "ext_set":
        n = len(lst[::2])
        lst[::2] = [40 + i for i in range(n)]
    elif op == "ext_del":
        del lst[::2]
    elif op == "neg_ext_del":
        del lst[::-2]
    elif op == "iadd":
        lst += [3]
    elif op == "imul":
        lst *= 2
    elif op == "sort":
        lst.sort(reverse=True)
    elif op == "reverse":
        lst.reverse()
    elif op == "clear":
        lst.clear()


class World:
    def __init__(self):
        self.objs = {"a": S(), "b": S(), "c": S()}
        for i, (k, o) in enumerate(self.objs.items()):
            o.l = [1, 2, 3]
            o.m = [4, 5]
        self.refs = {k: weakref.ref(o) for k, o in self.objs.items()}
        self.edges = set()       # ((o, attr), (o2, attr2)) directed
        self.calls = {}
        self.errors = []
        for k, o in self.objs.items():
            for attr in ("x", "y", "l", "m", "pz", "ld"):
                self.calls[(k, attr)] = []
                o.on_trait_change(self._mk(k, attr), attr)
        self.unsynced = False
        self.collected = False

    def _mk(self, k, attr):
        log = self.calls[(k, attr)]

        def h(new):
            log.append(1)
        return h

    def clear(self):
        for l in self.calls.values():
            l.clear()
        self.errors.clear()

    def value(self, k, attr):
        v = getattr(self.objs[k], attr)
        return list(v) if isinstance(v, list) else v

    def reachable_avoiding(self, node, blocked):
        seen, todo = {node}, [node]
        while todo:
            n = todo.pop()
            for (s, d) in self.edges:
                if s == n and d not in seen and d not in blocked and \
                        self.objs.get(d[0]) is not None:
                    seen.add(d)
                    todo.append(d)
        seen.discard(node)
        return seen

    def reachable(self, node, stops=()):
        """nodes the change of `node` has to reach; a node in `stops`
        (it already holds the value, so receiving it is no change there)
        is reached but passes nothing on"""
        seen, todo = {node}, [node]
        while todo:
            n = todo.pop()
            for (s, d) in self.edges:
                if s == n and d not in seen and self.objs.get(d[0]) is not None:
                    seen.add(d)
                    if d not in stops:
                        todo.append(d)
        seen.discard(node)
        return seen


def enabled(w, ev):
    k = ev[0]
    if k in ("sync", "unsync"):
        src, dst, name, alias, mutual = ev[1:]
        if w.objs[src] is None or w.objs[dst] is None:
            return False
        e = ((src, name), (dst, alias))
        if k == "sync":
            if e in w.edges:
                return False
            if alias == "pz" and getattr(w.objs[src], name) == 2:
                # (sync_trait itself hands the current value to the partner
                #  unprotected; a refusal there is the partner's business)
                return False
            # keep link graphs simple: one scalar link style per pair at a
            # time (x-x mutual, x-y alias, x-x one-way are alternatives)
            for (s, d) in w.edges:
                if {s[0], d[0]} == {src, dst} and (s[1] in ("x", "y", "pz")) \
                        == (name in ("x", "y", "pz")):
                    return False
            return True
        else:
            if e not in w.edges:
                return False
            rev = ((dst, alias), (src, name))
            return mutual == (rev in w.edges)
    if k == "gc":
        return w.objs[ev[1]] is not None
    if k == "del":
        o = w.objs[ev[1]]
        return o is not None and ev[2] in o.__dict__ and \
            getattr(o, ev[2]) != ([] if ev[2] == "l" else 0)
    if w.objs[ev[1]] is None:
        return False
    if k == "lop":
        lst = getattr(w.objs[ev[1]], ev[2])
        op = ev[3]
        if op in ("pop", "del0", "setitem0", "slice_set", "ext_set",
                  "ext_del", "neg_ext_del", "imul", "clear"):
            return len(lst) >= 1 and len(lst) <= 6
        if op in ("sort", "reverse"):
            return len(lst) >= 2 and lst != sorted(lst, reverse=True) \
                if op == "sort" else len(lst) >= 2 and lst != lst[::-1]
        return len(lst) <= 6
    return True


def handler_recorder(errors):
    def handler(obj, name, old, new):
        errors.append(repr(sys.exc_info()[1])[:120])
    return handler


def step(ctx, w, ev, hist):
    good = True

    def bad(kind, msg):
        nonlocal good
        good = False
        ctx.violation("C20:%s:%s" % (kind, ":".join(str(x) for x in ev
                                                    if not isinstance(x, bool))
                                     [:60]), msg, history=hist)
    k = ev[0]
    w.clear()
    ctx.tr()
    before = {(o, a): w.value(o, a) for o in w.objs if w.objs[o] is not None
              for a in ("x", "y", "l", "m", "pz", "ld")}
    push_exception_handler(handler=handler_recorder(w.errors),
                           reraise_exceptions=False, main=True)
    exc = None
    changed_node = None
    try:
        if k == "sync":
            src, dst, name, alias, mutual = ev[1:]
            w.objs[src].sync_trait(name, w.objs[dst], alias, mutual=mutual)
            w.edges.add(((src, name), (dst, alias)))
            if mutual:
                w.edges.add(((dst, alias), (src, name)))
            # the target takes the source's value (and passes it on)
            changed_node = (dst, alias)
            if w.value(dst, alias) != w.value(src, name):
                bad("sync-initial", "after sync_trait %s.%s = %r but %s.%s ="
                    " %r" % (src, name, w.value(src, name), dst, alias,
                             w.value(dst, alias)))
        elif k == "unsync":
            src, dst, name, alias, mutual = ev[1:]
            w.objs[src].sync_trait(name, w.objs[dst], alias, mutual=mutual,
                                   remove=True)
            w.edges.discard(((src, name), (dst, alias)))
            if mutual:
                w.edges.discard(((dst, alias), (src, name)))
            w.unsynced = True
        elif k == "set":
            setattr(w.objs[ev[1]], ev[2], ev[3])
            changed_node = (ev[1], ev[2])
        elif k == "del":
            delattr(w.objs[ev[1]], ev[2])
            changed_node = (ev[1], ev[2])
        elif k == "lop":
            if ev[3] == "assign":
                cur = getattr(w.objs[ev[1]], ev[2])
                setattr(w.objs[ev[1]], ev[2], [9, 8, 7] if list(cur) !=
                        [9, 8, 7] else [1])
            else:
                list_op(getattr(w.objs[ev[1]], ev[2]), ev[3])
            changed_node = (ev[1], ev[2])
        elif k == "gc":
            name = ev[1]
            w.objs[name] = None
            gc.collect()
            if w.refs[name]() is not None:
                bad("partner-kept-alive", "a synchronised partner is kept "
                    "alive by the link")
            w.edges = {(s, d) for (s, d) in w.edges
                       if s[0] != name and d[0] != name}
            w.collected = True
    except RecursionError as e:
        exc = e
        bad("recursion", "unbounded recursion")
    except Exception as e:
        exc = e
        bad("raises", "the operation raised %r to the caller" % (e,))
    finally:
        pop_exception_handler()
    if exc is not None:
        return good
    if w.errors:
        bad("internal-exception", "exception(s) inside the library's own "
            "synchronisation handlers: %s" % w.errors[:2])
    # ---- convergence / isolation
    if changed_node is not None:
        src_val = w.value(*changed_node)
        inplace = k == "lop" and ev[3] != "assign"
        # an assignment that arrives at an attribute already holding the
        # value is not a change there and is not passed on (a one-way target
        # beyond it that diverged on its own stays as it is)
        stops = set() if inplace else {n for n, v in before.items()
                                       if v == src_val and n != changed_node}
        reach = w.reachable(changed_node, stops)
        really_changed = before[changed_node] != src_val
        # a partner that refuses the pushed value keeps its old one and
        # passes nothing on: cut the propagation there
        refused = {n for n in reach if n[1] == "pz" and src_val == 2}
        if refused:
            reach = {n for n in w.reachable_avoiding(changed_node, refused)}
            for n in refused:
                if w.value(*n) != before[n]:
                    bad("refused-push-stored", "%s.%s refused the value but "
                        "changed" % n)
        for node in reach:
            got = w.value(*node)
            if not really_changed:
                # no real change, nothing has to propagate (a one-way target
                # that diverged on its own stays as it is)
                continue
            if inplace and before[node] != before[changed_node]:
                # an in-place mutation keeps equal lists equal; a one-way
                # target that had diverged on its own is not constrained
                continue
            if got != src_val:
                bad("diverged", "%s.%s = %r but linked %s.%s = %r" % (
                    changed_node[0], changed_node[1], src_val, node[0],
                    node[1], got))
        if reach:
            ctx.outcome("list-propagated" if k == "lop" else "propagated")
            ctx.nontriv((ev, sorted(w.edges)))
            if k == "lop" and ev[3] in ("ext_set", "ext_del", "neg_ext_del"):
                ctx.outcome("extended-slice")
        # everything not reachable is untouched
        for node, old in before.items():
            if node == changed_node or node in reach:
                continue
            if w.objs[node[0]] is None:
                continue
            now = w.value(*node)
            if now != old:
                bad("leaked", "%s.%s changed from %r to %r although it is "
                    "not linked from %s.%s" % (node[0], node[1], old, now,
                                               changed_node[0],
                                               changed_node[1]))
            elif any(s == node for (s, d) in w.edges
                     if d == changed_node):
                ctx.outcome("one-way-blocked")
            elif w.unsynced and not reach:
                ctx.outcome("after-unsync-silent")
            elif w.collected and not reach:
                ctx.outcome("after-gc-silent")
    # ---- at most one handler call per real change
    for (o, a), log in w.calls.items():
        if w.objs[o] is None:
            continue
        now = w.value(o, a)
        real_change = now != before[(o, a)]
        limit = 1
        if len(log) > limit:
            bad("notified-twice", "handler of %s.%s called %d times for one "
                "change" % (o, a, len(log)))
    # ---- tables back to baseline when no links are left
    if not w.edges:
        for name, o in w.objs.items():
            if o is None:
                continue
            info = o.__dict__.get("__sync_trait__")
            if info is not None and (set(info) - {""} or info.get("")):
                bad("tables", "no links left but %s.__sync_trait__ = %r"
                    % (name, {k: list(v) for k, v in info.items()}))
        ctx.outcome("tables-baseline")
    else:
        for name, o in w.objs.items():
            if o is None:
                continue
            info = o.__dict__.get("__sync_trait__")
            if info is not None and info.get(""):
                bad("lock-left", "lock entries left behind on %s: %r"
                    % (name, list(info[""])))
    return good


def canon(w):
    vals = tuple((o, a, repr(w.value(o, a))) for o in sorted(w.objs)
                 if w.objs[o] is not None
                 for a in ("x", "y", "l", "m", "pz", "ld"))
    return (vals, tuple(sorted(w.edges)),
            tuple(o for o in w.objs if w.objs[o] is None))


PROBES = [("set", o, a, 100 + i) for i, (o, a) in enumerate(
    (o, a) for o in "abc" for a in "xy")] + [("set", "b", "pz", 55)] + \
    [("lop", o, a, "append") for (o, a) in
     (("a", "l"), ("b", "l"), ("b", "m"), ("c", "l"))] + \
    [("lop", "a", "l", "ext_del"), ("lop", "b", "l", "setitem0"),
     ("lop", "a", "ld", "append"), ("lop", "b", "ld", "append")]


def run_history(ctx, hist):
    w = World()
    for i, ev in enumerate(hist):
        if not enabled(w, ev):
            return None, None
        ok = step(ctx if i == len(hist) - 1 else _QUIET, w, ev, hist)
        if not ok and i == len(hist) - 1:
            return False, None
    key = canon(w)
    if hist and hist[-1][0] == "set" and hist[-1][3] == 2 and \
            any(d[1] == "pz" for (_s, d) in w.edges):
        # a partner refused the value: what a refusal leaves behind (locks)
        # is not in the canonical state, so the history is kept apart
        key = (key, "refused")
    if hist and hist[-1][0] in ("sync", "unsync", "gc"):
        # probe: one more change on every attribute of every live object
        # (checks convergence / isolation one step beyond the depth bound)
        for pev in PROBES:
            if enabled(w, pev):
                if not step(ctx, w, pev, hist + [("probe",) + pev]):
                    return False, None
    return True, key


class _QuietCtx:
    def tr(self, *a):
        pass

    def outcome(self, *a):
        pass

    def nontriv(self, *a):
        pass

    def violation(self, *a, **k):
        return False


_QUIET = _QuietCtx()


# ---------------------------------------------------------------- cells
class D(S):
    """y is derived from x by an ordinary change handler: a change arriving
    through the x link makes the receiver assign its own y while the x
    propagation is still in flight"""

    def _x_changed(self, new):
        self.y = 2 * new


LINK_STYLES = (None, "mutual", "ab", "ba")


def derived_cells(ctx, tier):
    import itertools
    evs = [(o, a, v) for o in "ab" for a in "xy" for v in (1, 2, 3)]
    depth = 2 if tier == "quick" else 3
    for sx, sy, first in itertools.product(LINK_STYLES, LINK_STYLES,
                                           ("x", "y")):
        if sx is None and sy is None:
            continue
        for n in range(1, depth + 1):
            for hist in itertools.product(evs, repeat=n):
                ctx.case({"cell": "derived", "sx": sx, "sy": sy,
                          "first": first, "history": [list(e) for e in hist]})
                ctx.ev()
                a, b = D(), S()
                objs = {"a": a, "b": b}
                model = {("a", "x"): 0, ("a", "y"): 0, ("b", "x"): 0,
                         ("b", "y"): 0}
                links = set()

                def massign(o, at, v):
                    if model[(o, at)] == v:
                        return
                    model[(o, at)] = v
                    if o == "a" and at == "x":
                        massign("a", "y", 2 * v)
                    for (s_, d_) in sorted(links):
                        if s_ == (o, at):
                            massign(d_[0], d_[1], v)
                errors = []
                push_exception_handler(handler=handler_recorder(errors),
                                       reraise_exceptions=False, main=True)
                try:
                    for attr in ((("x", sx), ("y", sy)) if first == "x"
                                 else (("y", sy), ("x", sx))):
                        at, style = attr
                        if style == "mutual":
                            a.sync_trait(at, b)
                            links |= {(("a", at), ("b", at)),
                                      (("b", at), ("a", at))}
                        elif style == "ab":
                            a.sync_trait(at, b, mutual=False)
                            links.add((("a", at), ("b", at)))
                        elif style == "ba":
                            b.sync_trait(at, a, mutual=False)
                            links.add((("b", at), ("a", at)))
                    for (o, at, v) in hist:
                        ctx.tr()
                        setattr(objs[o], at, v)
                        massign(o, at, v)
                        got = {(k, t): getattr(objs[k], t) for k in "ab"
                               for t in "xy"}
                        if got != model:
                            ctx.violation(
                                "C20:derived-handler:%s:%s" % (sx, sy),
                                "x links %s, y links %s, a.y derived from "
                                "a.x by a change handler; after %s.%s = %r: "
                                "%r, expected %r" % (
                                    sx, sy, o, at, v,
                                    sorted(got.items()),
                                    sorted(model.items())),
                                history=[list(e) for e in hist])
                            break
                        ctx.outcome("propagated")
                except Exception as exc:
                    ctx.violation("C20:derived-handler-raises",
                                  "raised %r" % (exc,),
                                  history=[list(e) for e in hist])
                finally:
                    pop_exception_handler()
                if errors:
                    ctx.violation("C20:derived-handler-internal",
                                  "exception inside the library's handlers: "
                                  "%s" % errors[:2],
                                  history=[list(e) for e in hist])
                ctx.state(("derived", sx, sy, first, hist))


def restyle_cells(ctx):
    """the style of an existing link is changed by a second sync_trait call
    without removal in between (one-way upgraded to mutual, from either end;
    a repeated request); afterwards both directions work, and one removal
    ends the link"""
    for attr in ("x", "l", "line_items"):
        for second in ("a-mutual", "b-mutual", "a-oneway-again"):
            ctx.case({"cell": "restyle", "attr": attr, "second": second})
            ctx.ev()
            ctx.tr()
            a, b = S(), S()
            if attr != "x":
                setattr(a, attr, [1, 2])
                setattr(b, attr, [5])
            a.sync_trait(attr, b, mutual=False)
            if second == "a-mutual":
                a.sync_trait(attr, b)
            elif second == "b-mutual":
                b.sync_trait(attr, a)
            else:
                a.sync_trait(attr, b, mutual=False)
            mutual = second != "a-oneway-again"

            def poke(o, v):
                if attr == "x":
                    o.x = v
                else:
                    getattr(o, attr).append(v)

            def val(o):
                return o.x if attr == "x" else list(getattr(o, attr))
            errors = []
            push_exception_handler(handler=handler_recorder(errors),
                                   reraise_exceptions=False, main=True)
            try:
                poke(a, 7)
                if val(b) != val(a):
                    ctx.violation("C20:restyle:%s:%s:forward" % (attr, second),
                                  "after the second sync_trait call a change "
                                  "of a.%s did not reach b (%r / %r)"
                                  % (attr, val(a), val(b)),
                                  history=[["restyle", attr, second]])
                before = val(a)
                poke(b, 8)
                if mutual and val(a) != val(b):
                    ctx.violation("C20:restyle:%s:%s:reverse" % (attr, second),
                                  "a one-way link upgraded to mutual does "
                                  "not propagate b.%s to a (%r / %r)"
                                  % (attr, val(a), val(b)),
                                  history=[["restyle", attr, second]])
                if not mutual and val(a) != before:
                    ctx.violation("C20:restyle:%s:%s:oneway" % (attr, second),
                                  "one-way link propagated backwards",
                                  history=[["restyle", attr, second]])
                ctx.outcome("propagated")
                # removal ends the link in both directions
                if second == "b-mutual":
                    b.sync_trait(attr, a, remove=True)
                else:
                    a.sync_trait(attr, b, mutual=mutual, remove=True)
                va, vb = val(a), val(b)
                poke(a, 9)
                if val(b) != vb:
                    ctx.violation("C20:restyle:%s:%s:after-removal"
                                  % (attr, second), "a change of a.%s still "
                                  "reaches b after the link was removed"
                                  % attr, history=[["restyle", attr, second]])
                va = val(a)
                poke(b, 10)
                if val(a) != va:
                    ctx.violation("C20:restyle:%s:%s:after-removal"
                                  % (attr, second), "a change of b.%s still "
                                  "reaches a after the link was removed"
                                  % attr, history=[["restyle", attr, second]])
                ctx.outcome("after-unsync-silent")
            except Exception as exc:
                ctx.violation("C20:restyle-raises:%s:%s" % (attr, second),
                              "raised %r" % (exc,),
                              history=[["restyle", attr, second]])
            finally:
                pop_exception_handler()
            if errors:
                ctx.violation("C20:restyle-internal:%s:%s" % (attr, second),
                              "exception inside the library's handlers: %s"
                              % errors[:2],
                              history=[["restyle", attr, second]])


def shards(tier):
    return [{"first": i} for i in range(len(menu()))] + \
        [{"cell": "derived"}, {"cell": "restyle"}, {"cell": "gc-during"}]


def run_shard(ctx, shard, tier):
    if shard.get("cell") == "derived":
        derived_cells(ctx, tier)
        ctx.depth_completed = 2
        return
    if shard.get("cell") == "restyle":
        restyle_cells(ctx)
        ctx.depth_completed = 1
        return
    if shard.get("cell") == "gc-during":
        gc_during_propagation_cells(ctx)
        ctx.depth_completed = 1
        return
    evs = menu()
    depth = 3 if tier == "quick" else 4
    # the last level uses a reduced menu (all link events, one scalar value,
    # three list mutators); the probes add the rest
    evs3 = [e for e in evs if e[0] in ("sync", "unsync", "gc", "del") or
            (e[0] == "set" and e[3] in (1, 3)) or
            e == ("set", "a", "x", 2) or        # (the value pz refuses)
            (e[0] == "lop" and e[3] in ("append", "ext_del", "assign"))]
    frontier = [[]]
    n_exec = 0
    for d in range(1, depth + 1):
        nxt = []
        for hist in frontier:
            for ev in ([evs[shard["first"]]] if d == 1 else
                       (evs if d < depth else evs3)):
                h2 = hist + [ev]
                ctx.case({"history": h2})
                ok, key = run_history(ctx, h2)
                if ok is None:
                    continue
                ctx.ev()
                n_exec += 1
                if n_exec % 500 == 0:
                    gc.collect()
                if ok and ctx.state(key):
                    nxt.append(h2)
        frontier = nxt
    ctx.depth_completed = depth
    ctx.sample({"history": frontier[0] if frontier else [evs[shard["first"]]]})


def gc_during_propagation_cells(ctx):
    """a partner is collected *while* a change is being propagated (a change
    handler of another partner drops the last reference to it): nothing is
    raised, the remaining partners are equal afterwards, later changes still
    propagate"""
    from traits.api import pop_exception_handler, push_exception_handler
    for attr in ("x", "l"):
        for mutual in (False, True):
            for victim_first in (False, True):
                case = {"cell": "gc-during", "attr": attr, "mutual": mutual,
                        "victim_first": victim_first}
                ctx.case(case)
                ctx.ev()
                ctx.tr()
                a, b = S(), S()
                keep = [S()]
                if attr == "l":
                    a.l, b.l, keep[0].l = [1], [1], [1]
                vref = weakref.ref(keep[0])
                if victim_first:
                    a.sync_trait(attr, keep[0], mutual=mutual)
                    a.sync_trait(attr, b, mutual=mutual)
                else:
                    a.sync_trait(attr, b, mutual=mutual)
                    a.sync_trait(attr, keep[0], mutual=mutual)

                def drop():
                    keep.clear()
                    gc.collect()
                b.on_trait_change(drop, attr if attr == "x" else "l_items")
                errors = []
                push_exception_handler(
                    lambda *args: errors.append(repr(sys.exc_info()[1])),
                    reraise_exceptions=False)
                try:
                    try:
                        if attr == "x":
                            a.x = 7
                        else:
                            a.l.append(7)
                    except Exception as exc:
                        errors.append(repr(exc))
                    gone = vref() is None
                    try:
                        if attr == "x":
                            a.x = 8
                        else:
                            a.l.append(8)
                    except Exception as exc:
                        errors.append(repr(exc))
                finally:
                    pop_exception_handler()
                sig = "C20:gc-during-propagation:%s" % attr

                def bad(kind, msg):
                    ctx.violation("%s:%s" % (sig, kind), msg, **case)
                if errors:
                    bad("raises", "collecting a partner while a change was "
                        "being propagated raised %s" % errors[:2])
                    continue
                if gone:
                    ctx.outcome("partner-collected")
                want = 8 if attr == "x" else [1, 7, 8]
                got = b.x if attr == "x" else list(b.l)
                if got != want:
                    bad("not-propagated", "after the collection the "
                        "remaining partner holds %r, the source %r"
                        % (got, want))
                else:
                    ctx.outcome("converged")


def replay(rec):
    from mc.ctx import Ctx
    ctx = Ctx("C20", None, "quick", 0)
    c = rec.get("case") or rec
    if c.get("cell"):
        {"derived": lambda: derived_cells(ctx, "quick"),
         "restyle": lambda: restyle_cells(ctx),
         "gc-during": lambda: gc_during_propagation_cells(ctx)}[c["cell"]]()
        for v in ctx.violations.values():
            print("  violation:", v["sig"], v["msg"])
        return not ctx.violations
    hist = [tuple(e) for e in c["history"]]
    run_history(ctx, hist)
    print("history", hist)
    for v in ctx.violations.values():
        print("  violation:", v["sig"], v["msg"])
    return not ctx.violations
