"""C15 — the observe mini-language means what its grammar and tables say.

(i) every derivation of the documented grammar up to a token bound, in several
equivalent spellings; (ii) every string up to a symbol bound over the
mini-language alphabet.  Oracle: an independent tokeniser + recursive-descent
recogniser + denotation written from the user manual.
"""
import itertools

from traits.api import HasTraits, Instance, Int
from traits.observation import parsing
from traits.observation._anytrait_filter import anytrait_filter
from traits.observation._dict_item_observer import DictItemObserver
from traits.observation._filtered_trait_observer import FilteredTraitObserver
from traits.observation._list_item_observer import ListItemObserver
from traits.observation._metadata_filter import MetadataFilter
from traits.observation._named_trait_observer import NamedTraitObserver
from traits.observation._set_item_observer import SetItemObserver

from props import graphs as G

LEVEL = "exploration"
RULE = ("(i) all derivations of the documented grammar with up to N tokens "
        "over names {a, b, items}, +a, *, connectors, commas, brackets, each "
        "in 5 spellings; (ii) all strings of up to M symbols over the "
        "13-symbol alphabet {a b items + * . : , [ ] space newline 1}; "
        "non-trivial = string in the language, or rejected string that is one"
        " edit away from the language; distinct = distinct string")
EXPLANATION = ("exhaustive enumeration; reference = independent recogniser + "
               "denotation (set of observed paths with notify flags) written "
               "from the manual's tables")
BOUNDS = {"quick": "derivations <= 9 tokens; raw strings <= 5 symbols",
          "thorough": "derivations <= 11 tokens; raw strings <= 6 symbols"}
ASSUMPTIONS = ["names are three representatives (a, b, items)"]
MIN_OUTCOMES = {t: ["accepted-meaning-ok", "spelling-equal",
                    "remove-by-text-ok", "raw-accepted", "raw-rejected"]
                for t in ("quick", "thorough")}
TIMEOUT = {"quick": 1200, "thorough": 7200}

PUNCT = "+*.:,[]"
WS = " \t\f\r\n"


class Reject(Exception):
    pass


def tokenize(text):
    toks, i, n = [], 0, len(text)
    while i < n:
        ch = text[i]
        if ch in WS:
            i += 1
        elif ch in PUNCT:
            toks.append(ch)
            i += 1
        elif ch.isalpha() and ch.isascii() or ch == "_":
            j = i + 1
            while j < n and (text[j] == "_" or (text[j].isalnum()
                                                and text[j].isascii())):
                j += 1
            toks.append(("NAME", text[i:j]))
            i = j
        else:
            raise Reject("bad character %r" % ch)
    return toks


def recognise(text):
    """-> denotation: frozenset of paths; path = tuple of nodes;
    node = (kind, name, notify)   kind in t / items / meta / any"""
    toks = tokenize(text)
    pos = 0

    def peek():
        return toks[pos] if pos < len(toks) else None

    def par(terminal):
        nonlocal pos
        out = set(series(terminal))
        while peek() == ",":
            pos += 1
            out |= series(terminal)
        return out

    def series(terminal):
        # elements separated by connectors; only the last may be terminal
        nonlocal pos
        elems = []      # list of (start_pos, ...) parsed lazily: we need to
        # know whether an element is last before parsing brackets inside it,
        # so parse optimistically as non-terminal and re-parse the last one
        conns = []
        while True:
            start = pos
            skip_element()
            elems.append(start)
            if peek() in (".", ":"):
                conns.append(peek())
                pos += 1
            else:
                break
        end = pos
        # now evaluate
        paths = None
        for i, start in enumerate(elems):
            last = i == len(elems) - 1
            pos = start
            # notify of this element's *final* nodes
            sub = element(terminal and last)
            if paths is None:
                paths = [(p, True) for p in sub]
            else:
                paths = [(a + b, True) for (a, _) in paths for b in sub]
            if not last:
                notify = conns[i] == "."
                paths = [(set_last_notify(p, notify), True)
                         for (p, _) in paths]
                pos += 1        # the connector
        pos = end
        return {p for (p, _) in paths}

    def skip_element():
        nonlocal pos
        t = peek()
        if t is None:
            raise Reject("element expected")
        if t == "[":
            depth = 0
            while True:
                t = peek()
                if t is None:
                    raise Reject("unbalanced")
                pos += 1
                if t == "[":
                    depth += 1
                elif t == "]":
                    depth -= 1
                    if depth == 0:
                        return
        if t == "+":
            pos += 1
            if not isinstance(peek(), tuple):
                raise Reject("name expected after +")
            pos += 1
            return
        if t == "*" or isinstance(t, tuple):
            pos += 1
            return
        raise Reject("element expected, got %r" % (t,))

    def element(terminal):
        nonlocal pos
        t = peek()
        if t is None:
            raise Reject("element expected")
        if t == "[":
            pos += 1
            out = par(terminal)
            if peek() != "]":
                raise Reject("] expected")
            pos += 1
            return out
        if t == "+":
            pos += 1
            nm = peek()
            if not isinstance(nm, tuple):
                raise Reject("name expected after +")
            pos += 1
            return {(("meta", nm[1], True),)}
        if t == "*":
            if not terminal:
                raise Reject("* in non-terminal position")
            pos += 1
            return {(("any", None, True),)}
        if isinstance(t, tuple):
            pos += 1
            if t[1] == "items":
                return {(("items", None, True),)}
            return {(("t", t[1], True),)}
        raise Reject("element expected, got %r" % (t,))

    def set_last_notify(path, notify):
        return path[:-1] + ((path[-1][0], path[-1][1], notify),)

    result = par(True)
    if pos != len(toks):
        raise Reject("trailing tokens")
    return frozenset(result)


def expand(denotation):
    """documented meaning of 'items': a trait named items, or dict, list, set
    items (all optional) -> set of paths of concrete observer descriptions"""
    out = set()
    for path in denotation:
        alts = []
        for kind, name, notify in path:
            if kind == "items":
                alts.append([("trait", "items", notify, True),
                             ("dict_items", None, notify, True),
                             ("list_items", None, notify, True),
                             ("set_items", None, notify, True)])
            elif kind == "t":
                alts.append([("trait", name, notify, False)])
            elif kind == "meta":
                alts.append([("metadata", name, notify, None)])
            else:
                alts.append([("anytrait", None, notify, None)])
        for combo in itertools.product(*alts):
            out.add(tuple(combo))
    return out


def node_desc(node):
    if isinstance(node, NamedTraitObserver):
        return ("trait", node.name, node.notify, node.optional)
    if isinstance(node, DictItemObserver):
        return ("dict_items", None, node.notify, node.optional)
    if isinstance(node, ListItemObserver):
        return ("list_items", None, node.notify, node.optional)
    if isinstance(node, SetItemObserver):
        return ("set_items", None, node.notify, node.optional)
    if isinstance(node, FilteredTraitObserver):
        if isinstance(node.filter, MetadataFilter):
            return ("metadata", node.filter.metadata_name, node.notify, None)
        if node.filter is anytrait_filter or node.filter == anytrait_filter:
            return ("anytrait", None, node.notify, None)
    return ("?", repr(node), None, None)


def graph_paths(graphs):
    out = set()

    def walk(g, prefix):
        p = prefix + (node_desc(g.node),)
        if not g.children:
            out.add(p)
        for c in g.children:
            walk(c, p)
    for g in graphs:
        walk(g, ())
    return out


def impl(text):
    """-> ('ok', paths) | ('ValueError', msg) | ('exc', type name)"""
    try:
        expr = parsing.parse.__wrapped__(text)
    except ValueError as e:
        cs = getattr(parsing.compile_str, "__wrapped__", parsing.compile_str)
        try:
            cs(text)
        except ValueError:
            pass
        except BaseException as e2:
            return ("exc", type(e2).__name__ + " in compile_str")
        else:
            return ("exc", "compile_str accepts what parse rejects")
        return ("ValueError", "parse: " + str(e)[:80])
    except BaseException as e:
        return ("exc", type(e).__name__ + " in parse")
    try:
        graphs = expr._as_graphs()
    except ValueError as e:
        return ("ValueError", "compile: " + str(e)[:80])
    except BaseException as e:
        return ("exc", type(e).__name__ + " in compile")
    # the public one-step entry point must decide exactly the same
    cs = getattr(parsing.compile_str, "__wrapped__", parsing.compile_str)
    try:
        g2 = cs(text)
    except ValueError as e:
        return ("exc", "compile_str rejects what parse+compile accept")
    except BaseException as e:
        return ("exc", type(e).__name__ + " in compile_str")
    if set(g2) != set(graphs):
        return ("exc", "compile_str gives different graphs than parse")
    return ("ok", graph_paths(graphs), expr, graphs)


def classify(text, msg):
    if "*" in text and "[" in text:
        return "star-in-brackets"
    if "unique" in msg:
        return "duplicate-branches"
    return "other"


def check_string(ctx, text, raw):
    ctx.ev()
    ctx.tr()
    try:
        den = recognise(text)
        inlang = True
    except Reject:
        inlang = False
    r = impl(text)
    if r[0] == "exc":
        ctx.violation("C15:foreign-exception", "%r: %s" % (text, r[1]),
                      text=text)
        return None
    if inlang:
        ctx.nontriv(text)
        if r[0] != "ok":
            ctx.violation("C15:rejected-valid:%s" % classify(text, r[1]),
                          "%r is generated by the documented grammar but is "
                          "rejected (%s)" % (text, r[1]), text=text)
            return None
        want = expand(den)
        if r[1] != want:
            ctx.violation("C15:meaning", "%r denotes %r, compiled graphs "
                          "give %r" % (text, sorted(want ^ r[1])[:3], "..."),
                          text=text)
            return None
        ctx.outcome("raw-accepted" if raw else "accepted-meaning-ok")
        return r
    if r[0] == "ok":
        ctx.violation("C15:accepted-invalid", "%r is not in the documented "
                      "language but is accepted" % (text,), text=text)
        return None
    ctx.outcome("raw-rejected" if raw else "rejected-ok")
    return None


# ------------------------------------------------------------ derivations
def derivations(maxtok):
    from functools import lru_cache

    @lru_cache(None)
    def E(n, T):
        out = []
        if n == 1:
            out += [("a",), ("b",), ("items",)]
            if T:
                out.append(("*",))
        if n == 2:
            out.append(("+", "a"))
        if n >= 3:
            out += [("[",) + p + ("]",) for p in P(n - 2, T)]
        return out

    @lru_cache(None)
    def S(n, T):
        out = list(E(n, T))
        for k in range(1, n - 1):
            for left in S(k, False):
                for c in (".", ":"):
                    for right in E(n - k - 1, T):
                        out.append(left + (c,) + right)
        return out

    @lru_cache(None)
    def P(n, T):
        out = list(S(n, T))
        for k in range(1, n - 1):
            for left in P(k, T):
                for right in S(n - k - 1, T):
                    out.append(left + (",",) + right)
        return out
    res = []
    for n in range(1, maxtok + 1):
        res += P(n, True)
    return res


def spellings(toks):
    s = "".join(toks)
    yield "spaces", " ".join(toks)
    yield "newlines", "\n" + s + "\n "
    yield "outer-brackets", "[" + s + "]"
    yield "double-brackets", "[[" + s + "]]"


class X(HasTraits):
    a = Instance(HasTraits)
    b = Instance(HasTraits)
    m = Int(a=True)


def removal_check(ctx, s, variant, vname):
    """observe(text) then observe(equivalent spelling, remove=True)"""
    x = X()
    x.a = X()
    x.a.b = X()
    x.b = X()

    def h(ev):
        pass
    base = G.fingerprint([x, x.a, x.b, x.a.b])
    try:
        x.observe(h, s)
    except Exception:
        return          # registration needs traits these objects lack
    try:
        x.observe(h, variant, remove=True)
    except Exception as e:
        ctx.violation("C15:remove-by-text:%s" % vname,
                      "registered with %r; removal with the equivalent "
                      "spelling %r raised %s" % (s, variant,
                                                 type(e).__name__), text=s)
        return
    if G.fingerprint([x, x.a, x.b, x.a.b]) != base:
        ctx.violation("C15:remove-by-text-leftover:%s" % vname,
                      "registered with %r, removed with %r: notifiers are "
                      "left" % (s, variant), text=s)
        return
    ctx.outcome("remove-by-text-ok")


SYMBOLS = ["a", "b", "items", "+", "*", ".", ":", ",", "[", "]", " ", "\n",
           "1"]


def shards(tier):
    out = [{"part": "deriv", "chunk": i, "of": 16} for i in range(16)]
    for first in SYMBOLS:
        out.append({"part": "raw", "first": first})
    return out


def run_shard(ctx, shard, tier):
    if shard["part"] == "deriv":
        maxtok = 9 if tier == "quick" else 11
        ders = derivations(maxtok)[shard["chunk"]::shard["of"]]
        for toks in ders:
            s = "".join(toks)
            ctx.case({"text": s})
            ctx.state(s)
            r = check_string(ctx, s, raw=False)
            if r is None:
                continue
            # parsing twice gives equal objects
            e2 = parsing.parse.__wrapped__(s)
            if e2 != r[2] or e2._as_graphs() != r[3]:
                ctx.violation("C15:parse-twice", "%r parsed twice gives "
                              "unequal patterns" % s, text=s)
            for vname, v in spellings(toks):
                ctx.case({"text": s, "variant": v})
                rv = check_string(ctx, v, raw=False)
                if rv is None:
                    continue
                if set(rv[3]) != set(r[3]) or rv[1] != r[1]:
                    ctx.violation("C15:spelling:%s" % vname,
                                  "%r and %r compile to different patterns"
                                  % (s, v), text=s)
                    continue
                ctx.outcome("spelling-equal")
                if len(toks) <= 5:
                    removal_check(ctx, s, v, vname)
        if ders:
            ctx.sample({"text": "".join(ders[len(ders) // 2])})
    else:
        maxlen = 5 if tier == "quick" else 6
        first = shard["first"]
        for n in range(0, maxlen):
            for rest in itertools.product(SYMBOLS, repeat=n):
                text = first + "".join(rest)
                ctx.case({"text": text})
                check_string(ctx, text, raw=True)
        if first == "a":
            ctx.case({"text": ""})
            check_string(ctx, "", raw=True)
        ctx.sample({"text": first + ".b:items"})
    ctx.depth_completed = 1


def replay(rec):
    from mc.ctx import Ctx
    ctx = Ctx("C15", None, "quick", 0)
    c = rec.get("case") or rec
    text = c.get("variant", c["text"])
    check_string(ctx, text, raw=True)
    print(repr(text), impl(text)[:2])
    try:
        print("denotation:", sorted(expand(recognise(text))))
    except Reject as e:
        print("not in the documented language:", e)
    for v in ctx.violations.values():
        print("  violation:", v["sig"], v["msg"])
    return not ctx.violations
