"""C18 — the compiled core is memory-safe and reference-neutral.

Runs against the clang AddressSanitizer + UndefinedBehaviorSanitizer build of
ctraits.c (VARIANT = "asan"):
  (i)  a slice of the shards of the other drivers (all operation families,
       including the C19 fault positions, C14 trait-definition round trips and
       the explicit GC events of C09/C20) — any sanitizer report or signal
       kills the worker and is reported with the journalled case;
  (ii) a dedicated reference-neutrality menu: every operation is repeated
       with sentinel objects and sys.getrefcount of every sentinel must not
       drift.
"""
import copy
import gc
import importlib
import pickle
import sys
import warnings

from traits.api import (Any, Callable, CInt, Constant, DelegatesTo, Dict,
                        Either, Enum, Event, Float, HasTraits, Instance, Int,
                        List, Map, Property, PrototypedFrom, Range, ReadOnly,
                        Set, Str, TraitError, TraitType, Tuple, Union)

VARIANT = "asan"
LEVEL = "fault_enumeration"
RULE = ("(i) shards of the other property drivers re-executed on the "
        "sanitised build (each delegated execution counts as one "
        "evaluation); (ii) reference-neutrality menu: operation x outcome "
        "cells, each repeated 24 times with sentinel objects; non-trivial = "
        "every menu cell and every delegated shard; distinct = distinct "
        "cell / shard")
EXPLANATION = ("exploration under AddressSanitizer/UBSan: sees executed paths"
               " only; reference neutrality by sys.getrefcount drift under "
               "repetition (no debug build needed)")
BOUNDS = {"quick": "about one shard in six of every other driver (quick "
                   "tier) + the full neutrality menu (66 cells)",
          "thorough": "one shard in two + the full neutrality menu"}
ASSUMPTIONS = ["allocation-failure paths are out (no malloc injector)",
               "crafted __setstate__ tuples are not documented API use"]
MIN_OUTCOMES = {t: ["delegated-shard", "neutral", "error-path-neutral",
                    "notifier-mutation-during-dispatch"]
                for t in ("quick", "thorough")}
TIMEOUT = {"quick": 2400, "thorough": 7200}

DELEGATES = ["c01_domain", "c02_notify", "c03_fast", "c04_containers",
             "c08_observe", "c09_register", "c10_defaults", "c11_delegate",
             "c12_property", "c13_names", "c14_copy", "c19_faults",
             "c20_sync", "c16_legacy", "c17_adapt"]
STRIDE = {"quick": {"c01_domain": 8, "c02_notify": 12, "c03_fast": 8,
                    "c04_containers": 9, "c08_observe": 10,
                    "c09_register": 27, "c10_defaults": 56,
                    "c11_delegate": 27, "c12_property": 25, "c13_names": 8,
                    "c14_copy": 1, "c19_faults": 2, "c20_sync": 30,
                    "c16_legacy": 52, "c17_adapt": 51},
          "thorough": {}}


from mc.ctx import Ctx as _Ctx  # noqa: E402


class _SubCtx(_Ctx):
    """A real context for the delegated driver (its violations belong to its
    own property and are dropped here); cases are journalled through the
    parent so that a crash is pinned to the delegated case."""

    def __init__(self, parent, modname):
        _Ctx.__init__(self, "delegated", None, "quick", 0)
        self._known = []
        self.parent = parent
        self.modname = modname

    def case(self, desc):
        self.current = desc
        self.parent.case({"delegated": self.modname, "case": desc})

    def violation(self, sig, msg, **rec):
        if "SystemError" in msg or "SystemError" in sig:
            self.parent.violation("C18:SystemError:" + sig[:60], msg, **rec)
        _Ctx.violation(self, sig, msg, **rec)
        return True


# ------------------------------------------------------- neutrality menu
class Sentinel:
    """fresh, hashable, never interned"""

    def __init__(self, tag="x"):
        self.tag = tag

    def __repr__(self):
        return "<S %s>" % self.tag


class NameStr(str):
    pass


class A(HasTraits):
    v = Int


def _pget(obj):
    return obj.__dict__.get("_p", 0)


def _pset(obj, value):
    if isinstance(value, Sentinel):
        raise ValueError("setter refuses")
    obj.__dict__["_p"] = value


def _pget_raises(obj):
    raise RuntimeError("getter fails")


class Par(HasTraits):
    t = Int
    pre_t = Int


class BadProto(HasTraits):
    v = Any

    def _v_default(self):
        raise RuntimeError("prototype default fails")


class Deferring(HasTraits):
    proto = Instance(BadProto, ())
    v = PrototypedFrom("proto")


class R(HasTraits):
    a = Any
    i = Int
    li = List(Int)
    di = Dict(Str, Int)
    inst = Instance(A)


class O(HasTraits):
    a = Any
    i = Int
    f = Float
    s = Str
    ci = CInt
    r = Range(0.0, 1.0)
    ri = Range(0, 5)
    e = Enum(1, 2, 3)
    m = Map({"k": 1})
    tp = Tuple(Int, Str)
    tpf = Tuple(Float, Any, Int)
    inst = Instance(A)
    cb = Callable
    ei = Either(Int, Str)
    un = Union(Int, Instance(A))
    li = List(Int)
    di = Dict(Str, Int)
    se = Set(Int)
    ro = ReadOnly
    k = Constant(3)
    ev = Event
    p = Property(_pget, _pset)
    pr = Property(_pget_raises)
    pv = Property(_pget, _pset, trait=Int)
    dyn = Any
    bad_default = Any
    parent = Instance(Par)
    t = DelegatesTo("parent")
    q = DelegatesTo("parent", prefix="pre_t")

    def _dyn_default(self):
        return [1]

    def _bad_default_default(self):
        raise RuntimeError("default fails")


_CUR = [None]


class ParS(HasTraits):
    star = Int


class OS(HasTraits):
    """prefix="*" without a class __prefix__: the target name is the
    attribute's own name"""
    parent = Instance(ParS, ())
    star = DelegatesTo("parent", prefix="*", listenable=False)


#: an attribute name that is a str subclass instance (never interned)
NM_STAR = NameStr("star")


class _RaisingIndex:
    def __index__(self):
        raise RuntimeError("__index__ fails")


_RAISER = _RaisingIndex()


class _Reassigning(TraitType):
    """post_setattr assigns the same trait again (also when it is called
    for the default value that a first read has just stored)"""

    def post_setattr(self, object, name, value):
        if not object.__dict__.get("_busy"):
            object.__dict__["_busy"] = True
            try:
                setattr(object, name, Sentinel("replacement"))
            finally:
                object.__dict__["_busy"] = False


class O2(HasTraits):
    rp = _Reassigning()
    ae = Any

    def _rp_default(self):
        return Sentinel("default")

    def _ae_default(self):
        raise AttributeError(_CUR[0])


def cells():
    """name -> (setup() -> ctx dict, op(ctx, S) performing op + undo,
    sentinels used)"""
    out = {}

    def cell(name, op, fails=False):
        out[name] = (op, fails)

    def expect(exc, f):
        try:
            f()
        except exc:
            return
        raise AssertionError("expected %s" % exc)

    # --- plain set/get/del success paths (op + undo => net zero)
    cell("set-any", lambda o, S: (setattr(o, "a", S), setattr(o, "a", None)))
    cell("set-get-del-any", lambda o, S: (setattr(o, "a", S), o.a,
                                          delattr(o, "a")))
    cell("event-fire", lambda o, S: setattr(o, "ev", S))
    cell("readonly-define", lambda o, S: None)
    cell("list-of-sentinels", lambda o, S: (setattr(o, "a", [S, S]),
                                            setattr(o, "a", None)))
    # --- failing validations for every validator kind
    for tname in ("i", "f", "s", "ci", "r", "ri", "e", "m", "tp", "inst",
                  "cb", "ei", "un", "li", "di", "se", "k", "pv"):
        cell("invalid-" + tname,
             (lambda o, S, t=tname: expect((TraitError,),
                                           lambda: setattr(o, t, S))),
             fails=True)
    cell("invalid-tuple-member", lambda o, S: expect(
        TraitError, lambda: setattr(o, "tp", (S, S))), fails=True)
    cell("invalid-list-item", lambda o, S: expect(
        TraitError, lambda: setattr(o, "li", [1, S])), fails=True)
    cell("invalid-list-append", lambda o, S: expect(
        TraitError, lambda: o.li.append(S)), fails=True)
    cell("invalid-dict-value", lambda o, S: expect(
        TraitError, lambda: o.di.__setitem__("k", S)), fails=True)
    cell("invalid-dict-key", lambda o, S: expect(
        TraitError, lambda: o.di.__setitem__(S, 1)), fails=True)
    cell("invalid-set-item", lambda o, S: expect(
        TraitError, lambda: o.se.add(S)), fails=True)
    cell("readonly-second-write", lambda o, S: expect(
        TraitError, lambda: setattr(o, "ro", S)), fails=True)
    cell("constant-write", lambda o, S: expect(
        TraitError, lambda: setattr(o, "k", S)), fails=True)
    cell("event-read", lambda o, S: expect(
        AttributeError, lambda: o.ev), fails=True)
    cell("prop-setter-raises", lambda o, S: expect(
        ValueError, lambda: setattr(o, "p", S)), fails=True)
    cell("prop-getter-raises", lambda o, S: expect(
        RuntimeError, lambda: o.pr), fails=True)
    cell("prop-readonly-write", lambda o, S: expect(
        TraitError, lambda: setattr(o, "pr", S)), fails=True)
    cell("default-raises", lambda o, S: expect(
        RuntimeError, lambda: o.bad_default), fails=True)
    cell("delegate-no-delegate-get", lambda o, S: expect(
        (AttributeError, TraitError), lambda: O().t), fails=True)
    cell("delegate-no-delegate-set", lambda o, S: expect(
        (AttributeError, TraitError), lambda: setattr(O(), "t", S)),
        fails=True)
    cell("delegate-invalid", lambda o, S: expect(
        TraitError, lambda: setattr(o, "t", S)), fails=True)
    cell("delegate-prefix-invalid", lambda o, S: expect(
        TraitError, lambda: setattr(o, "q", S)), fails=True)
    cell("delegate-set-get", lambda o, S: (setattr(o, "t", 4), o.t, o.q))
    cell("undefined-name-get", lambda o, S: expect(
        AttributeError, lambda: getattr(o, "nope")), fails=True)
    cell("strsubclass-name", lambda o, S: (
        setattr(o, NameStr("a"), S), getattr(o, NameStr("a")),
        delattr(o, NameStr("a"))))
    cell("nonstr-name", lambda o, S: expect(
        TypeError, lambda: getattr(o, 5)), fails=True)
    # --- notifications
    def notify_cycle(o, S):
        def h(new):
            pass
        o.on_trait_change(h, "a")
        o.a = S
        o.a = None
        o.on_trait_change(h, "a", remove=True)
    cell("notify-add-fire-remove", notify_cycle)

    def observe_cycle(o, S):
        def h(event):
            pass
        o.observe(h, "a")
        o.a = S
        o.a = None
        o.observe(h, "a", remove=True)
    cell("observe-add-fire-remove", observe_cycle)

    def remove_during_dispatch(o, S):
        # anytrait handlers only (no notifier on the trait itself); an
        # earlier handler unregisters a later one while the notification is
        # being delivered and nothing else keeps the removed handler alive:
        # the dispatcher's private copy of the notifier list must
        import weakref
        x = O()
        token = Sentinel("token")
        token_ref = weakref.ref(token)

        def make_late(token):
            def late():
                token.tag
            return late
        handlers = {"late": make_late(token)}
        del token
        state = {}

        def early():
            victim = handlers.pop("late", None)
            if victim is not None:
                x.on_trait_change(victim, remove=True)
                del victim
                gc.collect()
                state["freed"] = token_ref() is None
        x.on_trait_change(early)
        x.on_trait_change(handlers["late"])
        x.a = S
        x.a = None
        if state.get("freed"):
            raise AssertionError("a notifier removed during dispatch was "
                                 "freed while the dispatch was running")
    cell("handler-removes-later-handler", remove_during_dispatch)

    def add_during_dispatch(o, S):
        x = O()

        def extra(new):
            pass

        def early(new):
            x.on_trait_change(extra, "a")
        x.on_trait_change(early, "a")
        x.a = S
        x.a = None
    cell("handler-adds-handler", add_during_dispatch)

    def handler_raises(o, S):
        x = O()

        def h(new):
            raise RuntimeError("handler fails")
        x.on_trait_change(h, "a")
        x.a = S
    cell("handler-raises", handler_raises)

    def del_with_failing_default(o, S):
        # stored value + notifier + del + default computation raising
        x = O()

        def h(new):
            pass
        x.bad_default = S            # (no notifier yet: no old value needed)
        x.on_trait_change(h, "bad_default")
        try:
            del x.bad_default
        except RuntimeError:
            pass
    cell("del-default-raises-with-notifier", del_with_failing_default,
         fails=True)

    def quiet_set_with_listener(o, S):
        x = O()
        x.on_trait_change(lambda: None, "a")
        x.on_trait_change(lambda: None)
        x.trait_setq(a=S)
        x.trait_set(trait_change_notify=False, a=None)
    cell("quiet-set-with-listener", quiet_set_with_listener)

    def prototype_default_raises(o, S):
        # first local assignment of a prototyped attribute that has a
        # listener, while reading the prototype's value (the "old" value)
        # fails
        d = Deferring()
        d.on_trait_change(lambda: None, "v")
        try:
            d.v = S
        except RuntimeError:
            pass
    cell("prototyped-old-value-raises", prototype_default_raises, fails=True)

    def del_dyn(o, S):
        x = O()
        x.on_trait_change(lambda: None, "dyn")
        x.dyn = S
        del x.dyn
        x.dyn
    cell("del-dynamic-default", del_dyn)
    # --- instance traits
    cell("add-remove-trait", lambda o, S: (o.add_trait("zz", Any(S)),
                                           setattr(o, "zz", S),
                                           o.remove_trait("zz")))
    cell("add-trait-default-read", lambda o, S: (
        o.add_trait("zz", Any(S)), o.zz, o.remove_trait("zz")))
    # --- trait definition objects
    def ctrait_ops(o, S):
        ct = O.class_traits()["i"]
        c2 = copy.copy(ct)
        c3 = copy.deepcopy(ct)
        st = ct.__getstate__()
        c4 = pickle.loads(pickle.dumps(ct))
        c2.set_default_value(0, S)
        c2.default_value()
        c2.__dict__["meta"] = S
        try:
            c2.set_validate(S)
        except Exception:
            pass
        try:
            c2.set_default_value(99, S)
        except Exception:
            pass
        try:
            c2.validate(o, "i", S)
        except TraitError:
            pass
    cell("ctrait-clone-state-validate", ctrait_ops)

    def ctrait_property_roundtrip(o, S):
        for n in ("p", "pr", "pv"):
            ct = O.class_traits()[n]
            for c in (pickle.loads(pickle.dumps(ct)), copy.deepcopy(ct),
                      copy.copy(ct)):
                c.property_fields       # what a subclass's metaclass reads
    cell("ctrait-property-roundtrip", ctrait_property_roundtrip)

    def star_prefix_noninterned_name(o, S):
        x = OS()
        for _ in range(3):
            getattr(x, NM_STAR)
            setattr(x, NM_STAR, 3)
            x.base_trait(NM_STAR)
    cell("delegate-star-prefix-noninterned-name",
         star_prefix_noninterned_name)

    def delegate_is_a_temporary(o, S):
        # the delegate is not stored anywhere: a property hands out a fresh
        # object per access and the write goes through it (modify=True);
        # also a two-step chain whose first hop is such a temporary
        from traits.api import Delegate as _Dg, Property as _Pr

        class Tg(HasTraits):
            x = Any

        class Hop(HasTraits):
            nxt = _Pr()
            x = _Dg("nxt", modify=True)

            def _get_nxt(self):
                return Tg()

        class Dl(HasTraits):
            other = _Pr()
            hop = _Pr()
            x = _Dg("other", modify=True)
            y = _Dg("hop", prefix="x", modify=True)

            def _get_other(self):
                return Tg()

            def _get_hop(self):
                return Hop()
        d = Dl()
        for i in range(50):
            d.x = S
            d.y = S
            d.x = [i]           # allocations that reuse freed memory
    cell("delegate-is-a-temporary", delegate_is_a_temporary)

    def tuple_later_member_raises(o, S):
        # the first member is converted (a new tuple is started), the caller's
        # second item is carried over, the third member's protocol raises
        expect((RuntimeError, TraitError),
               lambda: setattr(o, "tpf", (1, S, _RAISER)))
    cell("tuple-later-member-raises", tuple_later_member_raises, fails=True)

    def trait_set_many(o, S):
        try:
            o.trait_set(a=S, i=S)
        except TraitError:
            pass
        o.a = None
    cell("trait_set-partial", trait_set_many, fails=True)

    def default_replaced_in_post_setattr(o, S):
        x = O2()
        r = x.rp                # nothing else holds the default object
        if r.tag != "default" or x.rp.tag != "replacement":
            raise AssertionError("first read gave %r, second %r"
                                 % (r, x.rp))
    cell("default-replaced-by-post-setattr", default_replaced_in_post_setattr)

    def default_attribute_error_as_error(o, S):
        # the warning about an AttributeError in a default method, turned
        # into an exception; the AttributeError (holding S) is its cause
        _CUR[0] = S
        x = O2()
        with warnings.catch_warnings():
            warnings.simplefilter("error")
            try:
                x.ae
            except UserWarning as w:
                c = w.__cause__
                if not isinstance(c, AttributeError) or c.args[0] is not S:
                    raise AssertionError("cause is %r" % (c,))
                del c
            else:
                raise AssertionError("expected the warning as an error")
        _CUR[0] = None
    cell("default-attribute-error-warning-as-error",
         default_attribute_error_as_error, fails=True)

    def malformed_factory_arguments(o, S):
        # factory arguments of the wrong shape: refused when the trait is
        # defined or when the default is read, or made to work - anything
        # but a crash
        for kwargs in ({"args": [[1, S]]}, {"args": "ab"},
                       {"kw": [("a", S)]}, {"args": None},
                       {"args": (S,), "kw": 5}):
            try:
                class M(HasTraits):
                    x = Any(factory=list, **kwargs)
                M().x
            except Exception:
                pass
            for dv in ((list, [S], None), (list, (S,), [1]), (list, S, {}),
                       (list,), 5):
                try:
                    t = Any().as_ctrait()
                    t.set_default_value(7, dv)
                    t.default_value_for(o, "zz")
                except Exception:
                    pass
    cell("malformed-factory-arguments", malformed_factory_arguments,
         fails=True)

    def pickle_object(o, S):
        x = R(a=[1, S], i=2, li=[1, 2], di={"k": 1}, inst=A())
        y = pickle.loads(pickle.dumps(x))
        z = copy.deepcopy(x)
        w = x.clone_traits()
    cell("object-roundtrip", pickle_object)
    return out


def neutrality(ctx):
    table = cells()
    reps = 24
    for name, (op, fails) in table.items():
        ctx.case({"cell": name})
        ctx.ev()
        ctx.tr()
        ctx.nontriv(name)
        ctx.state(("cell", name))
        o = O(parent=Par())
        o.ro = 1
        o.li, o.di, o.se
        S = Sentinel(name)
        with warnings.catch_warnings():
            warnings.simplefilter("ignore")
            try:
                for _ in range(3):
                    op(o, S)
                gc.collect()
                extra = (_pget, _pset, _pget_raises, A, Par, O, NM_STAR)
                r0 = (sys.getrefcount(S), sys.getrefcount(o))
                e0 = [sys.getrefcount(x) for x in extra]
                for _ in range(reps):
                    op(o, S)
                gc.collect()
                r1 = (sys.getrefcount(S), sys.getrefcount(o))
                e1 = [sys.getrefcount(x) for x in extra]
            except AssertionError as e:
                ctx.violation("C18:cell-outcome:%s" % name,
                              "cell %s: %s" % (name, e))
                continue
            except SystemError as e:
                ctx.violation("C18:SystemError:%s" % name,
                              "cell %s raised SystemError: %s" % (name, e))
                continue
        d = (r1[0] - r0[0], r1[1] - r0[1])
        de = [b - a for a, b in zip(e0, e1)]
        if any(de):
            ctx.violation("C18:refcount-drift-callables:%s" % name,
                          "cell %s: reference counts of (getter, setter, "
                          "raising getter, class A, class Par, class O, a "
                          "str-subclass attribute name) "
                          "drifted by %r over %d repetitions" % (name, de,
                                                                 reps))
        if d != (0, 0):
            ctx.violation("C18:refcount-drift:%s" % name,
                          "cell %s: reference count of the value drifted by "
                          "%+d and of the object by %+d over %d repetitions "
                          "(%+.2f per call)" % (name, d[0], d[1], reps,
                                                d[0] / reps))
        else:
            ctx.outcome("error-path-neutral" if fails else "neutral")
        if name == "handler-removes-later-handler":
            ctx.outcome("notifier-mutation-during-dispatch")


def shards(tier):
    out = [{"part": "neutrality"}]
    stride = STRIDE.get(tier) or {}
    for modname in DELEGATES:
        mod = importlib.import_module("props." + modname)
        sh = mod.shards("quick")
        step = stride.get(modname, 2 if tier == "thorough" else 6)
        if tier == "thorough":
            step = max(1, stride.get(modname, STRIDE["quick"].get(modname, 6))
                       // 3)
        for i in range(0, len(sh), step):
            out.append({"part": "delegate", "module": modname,
                        "shard": sh[i]})
    return out


def run_shard(ctx, shard, tier):
    if shard["part"] == "neutrality":
        neutrality(ctx)
        ctx.depth_completed = 1
        return
    mod = importlib.import_module("props." + shard["module"])
    sub = _SubCtx(ctx, shard["module"])
    ctx.case({"delegated": shard["module"], "shard": shard["shard"]})
    mod.run_shard(sub, shard["shard"], "quick")
    ctx.ev(sub.evaluations)
    ctx.tr(sub.transitions)
    for d in sub.states:
        ctx.states.add(d)
    ctx.outcome("delegated-shard")
    ctx.nontriv((shard["module"], repr(shard["shard"])))
    ctx.sample({"delegated": shard["module"], "shard": shard["shard"]})
    ctx.depth_completed = 1


def replay(rec):
    from mc.ctx import Ctx
    ctx = Ctx("C18", None, "quick", 0)
    c = rec.get("case") or rec
    if c.get("cell"):
        global cells
        allc = cells()
        only = {c["cell"]: allc[c["cell"]]}
        cells = lambda: only
        neutrality(ctx)
    else:
        print("delegated case: re-run with the owning driver under the "
              "sanitised build:", c)
    for v in ctx.violations.values():
        print("  violation:", v["sig"], v["msg"])
    return not ctx.violations
