"""C04 — container traits never hold an invalid element or an illegal length.

For each container trait configuration: every contents state (installed by
whole-value assignment) x every mutator with valid / convertible / invalid
payloads, applied to the outer container and to nested inner containers;
after every operation an independent walk re-validates every element and the
length bounds; a raising operation must leave contents (identities) untouched
and call none of the three kinds of items handlers.
"""
import itertools

from traits.api import (CInt, CStr, Dict, HasTraits, Instance, Int, List,
                        Property, PrototypedFrom, Set, Str, TraitError)

from props import c05_list, c06_dict, c07_set

LEVEL = "model_checking"
RULE = ("per container configuration: every contents state up to the length "
        "bound x every mutator x payloads over {valid, convertible, invalid} "
        "items (invalid item at every position), on outer and nested "
        "containers; non-trivial = the operation changed contents or raised; "
        "distinct = distinct (config, path, state, operation)")
EXPLANATION = ("direct exploration of the implementation; oracle = independent"
               " re-validation walk + reference model (built-in container on "
               "converted items + declared length bounds)")
BOUNDS = {"quick": "20 configurations + 8 one-off cells; list states of length 0..3, dict/set states over 2-3 "
                   "keys/items, payload length 0..3, depth-2 on short states",
          "thorough": "list states of length 0..4, depth-2 on all states of "
                      "length<=2"}
ASSUMPTIONS = ["item alphabets: 2 valid, 1 convertible, 2 invalid values per "
               "inner trait"]
MIN_OUTCOMES = {t: ["TraitError-item", "TraitError-length", "changed",
                    "noop", "other-exc", "nested-TraitError"]
                for t in ("quick", "thorough")}
TIMEOUT = {"quick": 900, "thorough": 3600}


class A(HasTraits):
    pass


A1, A2 = A(), A()


# ------------------------------------------------------------ item domains
class Dom:
    """An inner trait's domain: tokens -> raw values, conversion model,
    membership predicate on stored values."""

    def __init__(self, name, raw, conv, ok):
        self.name, self.raw, self.conv, self.ok = name, raw, conv, ok
        self.valid = [t for t in raw if t.startswith("v")]
        self.convertible = [t for t in raw if t.startswith("c")]
        self.invalid = [t for t in raw if t.startswith("x")]

    def convert(self, tok):
        if tok in self.conv:
            return self.conv[tok]
        raise TraitError("invalid " + tok)


INT = Dom("Int", {"v1": 1, "v2": 2, "c1": True, "x1": "a", "x2": 1.5,
                  "x3": None},
          {"v1": 1, "v2": 2, "c1": 1}, lambda x: type(x) is int)
CINT = Dom("CInt", {"v1": 1, "v2": 2, "c1": "3", "c2": 2.0, "x1": "a",
                    "x2": None},
           {"v1": 1, "v2": 2, "c1": 3, "c2": 2}, lambda x: type(x) is int)
STR = Dom("Str", {"v1": "p", "v2": "q", "x1": 1, "x2": None, "x3": b"p"},
          {"v1": "p", "v2": "q"}, lambda x: type(x) is str)
CSTR = Dom("CStr", {"v1": "p", "v2": "q", "c1": 1},
           {"v1": "p", "v2": "q", "c1": "1"}, lambda x: type(x) is str)
INST = Dom("Instance(A)", {"v1": A1, "v2": A2, "v3": None, "x1": 5,
                           "x2": "a"},
           {"v1": A1, "v2": A2, "v3": None},
           lambda x: x is None or isinstance(x, A))


from traits.api import TraitType, Undefined  # noqa: E402

#: Int again, with the library's own Undefined sentinel as the first
#: invalid item (it turns up in user data as the `old` of a first change)
INT_U = Dom("Int", {"v1": 1, "v2": 2, "c1": True, "x1": Undefined, "x2": "a"},
            {"v1": 1, "v2": 2, "c1": 1}, lambda x: type(x) is int)


class NonNeg(TraitType):
    """a user trait type that reports bad values with a message-only
    TraitError"""
    default_value = 0

    def validate(self, object, name, value):
        if type(value) is bool:
            return int(value)
        if type(value) is int and value >= 0:
            return value
        raise TraitError("must be a non-negative int")


NONNEG = Dom("NonNeg", {"v1": 1, "v2": 2, "c1": True, "x1": -1, "x2": "a"},
             {"v1": 1, "v2": 2, "c1": 1},
             lambda x: type(x) is int and x >= 0)


def mk_listdom(name, inner, minlen, maxlen):
    """Domain of a nested List(inner, minlen, maxlen) item."""
    raw = {"v1": [inner.raw["v1"]], "v2": [inner.raw["v1"], inner.raw["v2"]],
           "c1": [inner.raw[inner.convertible[0]]] if inner.convertible
           else [inner.raw["v2"]],
           "x1": [inner.raw["v1"], inner.raw[inner.invalid[0]]],
           "x2": 5, "x3": (inner.raw["v1"],)}
    conv = {"v1": [inner.conv["v1"]], "v2": [inner.conv["v1"],
                                             inner.conv["v2"]],
            "c1": [inner.conv[inner.convertible[0]]] if inner.convertible
            else [inner.conv["v2"]]}
    if maxlen is not None:
        raw["x4"] = [inner.raw["v1"]] * (maxlen + 1)
    if minlen:
        raw["x5"] = []
    else:
        raw["v3"] = []
        conv["v3"] = []

    def ok(x):
        return check_list(x, inner, minlen, maxlen) is None
    d = Dom(name, raw, conv, ok)
    d.inner, d.minlen, d.maxlen = inner, minlen, maxlen
    return d


def check_list(x, inner, minlen, maxlen):
    from traits.trait_list_object import TraitListObject
    if not isinstance(x, TraitListObject):
        return "value %r is not a TraitListObject" % (x,)
    if len(x) < minlen or (maxlen is not None and len(x) > maxlen):
        return "length %d outside %s..%s" % (len(x), minlen, maxlen)
    for i, e in enumerate(x):
        if not inner.ok(e):
            return "element %d = %r (%s) violates %s" % (
                i, e, type(e).__name__, inner.name)
    return None


def check_dict(x, kdom, vdom):
    from traits.trait_dict_object import TraitDictObject
    if not isinstance(x, TraitDictObject):
        return "value %r is not a TraitDictObject" % (x,)
    for k, v in x.items():
        if not kdom.ok(k):
            return "key %r (%s) violates %s" % (k, type(k).__name__, kdom.name)
        if not vdom.ok(v):
            return "value %r (%s) at key %r violates %s" % (
                v, type(v).__name__, k, vdom.name)
    return None


def check_set(x, dom):
    from traits.trait_set_object import TraitSetObject
    if not isinstance(x, TraitSetObject):
        return "value %r is not a TraitSetObject" % (x,)
    for e in x:
        if not dom.ok(e):
            return "member %r (%s) violates %s" % (e, type(e).__name__,
                                                   dom.name)
    return None


# ---------------------------------------------------------- configurations
INNER_L2 = mk_listdom("List(Int,maxlen=2)", INT, 0, 2)
INNER_L = mk_listdom("List(Int)", INT, 0, None)

CONFIGS = {
    "list_int": dict(kind="list", trait=lambda: List(Int), dom=INT,
                     minlen=0, maxlen=None),
    "list_int_1_3": dict(kind="list", trait=lambda: List(Int, minlen=1,
                                                         maxlen=3),
                         dom=INT, minlen=1, maxlen=3),
    # equal bounds: the length can never change
    "list_int_2_2": dict(kind="list", trait=lambda: List(Int, [0, 0],
                                                         minlen=2, maxlen=2),
                         dom=INT, minlen=2, maxlen=2),
    "list_cint_0_2": dict(kind="list", trait=lambda: List(CInt, maxlen=2),
                          dom=CINT, minlen=0, maxlen=2),
    "list_int_noitems": dict(kind="list",
                             trait=lambda: List(Int, items=False,
                                                maxlen=2),
                             dom=INT, minlen=0, maxlen=2),
    # the container trait is reached through PrototypedFrom (validated by
    # the prototype's trait, stored locally)
    "list_prototyped": dict(kind="list", trait=None, dom=INT, minlen=0,
                            maxlen=3),
    # a validated container Property inherited by a subclass that overrides
    # only the getter
    "list_property_subclass": dict(kind="list", trait=None, dom=INT,
                                   minlen=0, maxlen=3, no_observe=True),
    "list_inst": dict(kind="list", trait=lambda: List(Instance(A)), dom=INST,
                      minlen=0, maxlen=None),
    "list_list": dict(kind="list",
                      trait=lambda: List(List(Int, maxlen=2), maxlen=2),
                      dom=INNER_L2, minlen=0, maxlen=2, nested="list"),
    "dict_str_int": dict(kind="dict", trait=lambda: Dict(Str, Int), kdom=STR,
                         vdom=INT),
    "dict_cstr_list": dict(kind="dict", trait=lambda: Dict(CStr, List(Int)),
                           kdom=CSTR, vdom=INNER_L, nested="dictvalue"),
    "set_int": dict(kind="set", trait=lambda: Set(Int), dom=INT),
    "list_int_undef": dict(kind="list", trait=lambda: List(Int, maxlen=2),
                           dom=INT_U, minlen=0, maxlen=2),
    "set_int_undef": dict(kind="set", trait=lambda: Set(Int), dom=INT_U),
    "dict_str_int_undef": dict(kind="dict", trait=lambda: Dict(Str, Int),
                               kdom=STR, vdom=INT_U),
    "list_custom": dict(kind="list", trait=lambda: List(NonNeg, maxlen=2),
                        dom=NONNEG, minlen=0, maxlen=2),
    "set_custom": dict(kind="set", trait=lambda: Set(NonNeg), dom=NONNEG),
    "set_cint": dict(kind="set", trait=lambda: Set(CInt), dom=CINT),
}

_CLASSES = {}


class ProtoHolder(HasTraits):
    x = List(Int, maxlen=3)


class PropBase(HasTraits):
    """a validated container Property; subclasses override only the getter"""
    x = Property(List(Int, maxlen=3))

    def _get_x(self):
        return self.__dict__.get("_x", [])

    def _set_x(self, value):
        self.__dict__["_x"] = value


def owner_class(cfgname):
    if cfgname not in _CLASSES:
        cfg = CONFIGS[cfgname]
        if cfgname == "list_prototyped":
            class Owner(HasTraits):
                proto = Instance(ProtoHolder, ())
                x = PrototypedFrom("proto")
                calls = None

                def _x_items_changed(self, ev):
                    self.calls.append("static")
        elif cfgname == "list_property_subclass":
            class Owner(PropBase):
                calls = None

                def _get_x(self):       # overrides the getter only
                    return self.__dict__.get("_x", [])
        else:
            class Owner(HasTraits):
                x = cfg["trait"]()
                calls = None

                def __len__(self):
                    # a collection-like model: falsy while x is empty
                    return len(self.__dict__.get("x", ()))

                def _x_items_changed(self, ev):
                    self.calls.append("static")
        Owner.__name__ = "Owner_" + cfgname
        _CLASSES[cfgname] = Owner
    return _CLASSES[cfgname]


class Live:
    def __init__(self, cfgname, state_raw):
        self.cfg = CONFIGS[cfgname]
        self.calls = []
        cls = owner_class(cfgname)
        self.o = cls()
        self.o.calls = self.calls
        self.o.x = state_raw
        calls = self.calls
        if not self.cfg.get("no_observe"):
            self.o.on_trait_change(lambda: calls.append("otc"), "x_items")
            self.o.observe(lambda ev: calls.append("observe"), "x.items")
        if self.cfg.get("nested"):
            self.o.observe(lambda ev: calls.append("observe-nested"),
                           "x:items:items")

    def walk(self):
        cfg = self.cfg
        if cfg["kind"] == "list":
            return check_list(self.o.x, cfg["dom"], cfg["minlen"],
                              cfg["maxlen"])
        if cfg["kind"] == "dict":
            return check_dict(self.o.x, cfg["kdom"], cfg["vdom"])
        return check_set(self.o.x, cfg["dom"])


def snapshot(x):
    """identity-level snapshot of (nested) container contents"""
    if isinstance(x, list):
        return ("L", [(id(e), snapshot(e)) for e in x])
    if isinstance(x, dict):
        return ("D", [(id(k), id(v), snapshot(v)) for k, v in x.items()])
    if isinstance(x, (set, frozenset)):
        return ("S", sorted(id(e) for e in x))
    return None


def plain(x):
    if isinstance(x, list):
        return [plain(e) for e in x]
    if isinstance(x, dict):
        return {k: plain(v) for k, v in x.items()}
    if isinstance(x, (set, frozenset)):
        return sorted((type(e).__name__, repr(e)) for e in x)
    if isinstance(x, A):
        return "A1" if x is A1 else "A2"
    return x


# --------------------------------------------------------------- list ops
def list_ops_tiny(dom, n):
    v, x = dom.valid[0], dom.invalid[0]
    c = (dom.convertible or dom.valid)[0]
    return [("append", v), ("append", x), ("append", c), ("pop",),
            ("delitem", 0), ("delitem", -1), ("setitem", 0, x),
            ("setitem", -1, c), ("insert", 0, v), ("insert", 1, x),
            ("extend", [v, v]), ("extend", [v, x]), ("iadd", [x]),
            ("iadd", [c, v]), ("imul", 2), ("imul", 0), ("clear",),
            ("reverse",), ("remove_first",),
            ("delitem", ["s", None, None, 2]), ("delitem", ["s", 0, 1, None]),
            ("setitem", ["s", None, None, None], [v, x]),
            ("setitem", ["s", 0, 0, None], [v, v]),
            ("setitem", ["s", None, None, 2], [x]),
            ("setitem", ["s", 1, None, None], [])]


def list_ops(dom, n, tier, light=False):
    """token-level operations on a list of length n"""
    R = 1
    idx = list(range(-(n + R), n + R + 1))
    one = [dom.valid[0]] + dom.convertible[:1] + dom.invalid
    ops = []
    for i in idx:
        for t in one:
            ops.append(("setitem", i, t))
            ops.append(("insert", i, t))
        ops.append(("delitem", i))
        ops.append(("pop", i))
    ops.append(("pop",))
    for t in one + dom.valid[1:2]:
        ops.append(("append", t))
    maxk = 2 if light else 3
    pls = payloads(dom, maxk)
    for pl in pls:
        ops.append(("extend", pl))
        ops.append(("iadd", pl))
    for m in (-1, 0, 1, 2, 3):
        ops.append(("imul", m))
    ops += [("clear",), ("reverse",), ("remove_first",), ("sort_id",)]
    bounds = [None] + list(range(-(n + 1), n + 2))
    steps = [None, -1, 2, -2] if not light else [None, 2]
    if light:
        bounds = [None, 0, 1, n]
    for st in bounds:
        for sp in bounds:
            for step_ in steps:
                key = ["s", st, sp, step_]
                ops.append(("delitem", key))
                for pl in pls:
                    ops.append(("setitem", key, pl))
    return ops


def payloads(dom, maxk):
    out = [[]]
    v = dom.valid
    for k in range(1, maxk + 1):
        good = [v[i % len(v)] for i in range(k)]
        out.append(good)
        for t in dom.convertible[:1]:
            out.append(good[:-1] + [t])
        for pos in range(k):
            for t in dom.invalid[:2]:
                out.append(good[:pos] + [t] + good[pos + 1:])
    return out


def list_translate(dom, op, raw):
    """token op -> c05-style op with raw (or converted) values."""
    f = (lambda t: dom.raw[t]) if raw else dom.convert
    name = op[0]
    if name == "setitem":
        if isinstance(op[1], list):
            return ("setitem", op[1], [f(t) for t in op[2]])
        return ("setitem", op[1], f(op[2]))
    if name == "insert":
        return ("insert", op[1], f(op[2]))
    if name == "append":
        return ("append", f(op[1]))
    if name in ("extend", "iadd"):
        return (name, [f(t) for t in op[1]])
    return op


def list_do(lst, op):
    if op[0] == "remove_first":
        return lst.remove(lst[0]) if len(lst) else lst.remove(12345)
    if op[0] == "sort_id":
        return lst.sort(key=id)
    return c05_list.do(lst, op)


def list_step(ctx, live, target, dom, minlen, maxlen, op, cfgname, path):
    """Execute token-level `op` on the live list `target`."""
    before = list(target)
    whole_before = snapshot(live.o.x)
    live.calls.clear()
    ctx.tr()
    # ---- reference model
    must_raise = None       # reason the operation must be refused
    model_after = None
    builtin_exc = None
    try:
        conv_op = list_translate(dom, op, raw=False)
    except TraitError:
        conv_op = None
        must_raise = "item"
    ref = list(before)
    try:
        list_do(ref, conv_op if conv_op is not None
                else list_translate(dom, op, raw=True))
    except Exception as e:
        builtin_exc = type(e)
    else:
        if conv_op is not None:
            if len(ref) < minlen or (maxlen is not None and len(ref) > maxlen):
                if ref != before or len(ref) != len(before):
                    must_raise = "length"
            if must_raise is None:
                model_after = ref
    # ---- real operation
    try:
        list_do(target, list_translate(dom, op, raw=True))
        exc = None
    except Exception as e:
        exc = e
    after = list(target)
    key = (cfgname, path, plain(before), op)

    def bad(kind, msg):
        ctx.violation("C04:%s:%s:%s:%s" % (kind, cfgname, path, op[0]), msg,
                      config=cfgname, path=path, before=plain(before), op=op,
                      observed={"exc": exc and type(exc).__name__,
                                "after": plain(after),
                                "handler_calls": list(live.calls)})

    err = live.walk()
    if err:
        bad("invalid-content", "after the operation: " + err)
    if exc is not None:
        ctx.nontriv(key)
        if isinstance(exc, TraitError):
            ctx.outcome("TraitError-" + (must_raise or "other"))
            if path != "outer":
                ctx.outcome("nested-TraitError")
        else:
            ctx.outcome("other-exc")
            if must_raise and builtin_exc is not type(exc):
                bad("exc-class", "raised %s where TraitError was required"
                    % type(exc).__name__)
            elif not must_raise and builtin_exc is not type(exc):
                bad("exc-class", "raised %s, built-in list raises %s"
                    % (type(exc).__name__,
                       builtin_exc and builtin_exc.__name__))
        if snapshot(live.o.x) != whole_before:
            bad("failed-op-mutated", "operation raised %s but contents "
                "changed" % type(exc).__name__)
        if live.calls:
            bad("failed-op-notified", "operation raised %s but handlers were "
                "called: %r" % (type(exc).__name__, live.calls))
        return
    if must_raise:
        bad("accepted-" + must_raise, "operation that must be refused (%s) "
            "did not raise" % must_raise)
        return
    if builtin_exc is not None:
        bad("missing-exc", "succeeded where built-in list raises %s"
            % builtin_exc.__name__)
        return
    if plain(after) != plain(model_after) or \
            [type(e) for e in after if not isinstance(e, list)] != \
            [type(e) for e in model_after if not isinstance(e, list)]:
        bad("contents", "contents %r differ from the model %r"
            % (plain(after), plain(model_after)))
    if after != before or [id(e) for e in after] != [id(e) for e in before]:
        ctx.nontriv(key)
        ctx.outcome("changed")
    else:
        ctx.outcome("noop")


# --------------------------------------------------------------- dict ops
def dict_ops(kdom, vdom, light=False):
    kt = kdom.valid[:2] + kdom.convertible[:1] + kdom.invalid[:2]
    vt = vdom.valid[:1] + vdom.convertible[:1] + vdom.invalid[:2]
    ops = []
    for k in kt:
        for v in vt:
            ops.append(("setitem", k, v))
            ops.append(("setdefault", k, v))
        ops += [("delitem", k), ("pop", k), ("pop", k, "D"),
                ("setdefault", k)]
    ops += [("popitem",), ("clear",)]
    cells = [(k, v) for k in kt for v in vt]
    maxsize = 1 if light else 2
    for r in range(0, maxsize + 1):
        for combo in itertools.product(cells, repeat=r):
            pairs = [list(c) for c in combo]
            for form in (["dict", "pairs"] if not light else ["dict"]):
                if form == "dict" and len({p[0] for p in pairs}) != len(pairs):
                    continue
                ops.append(("update", form, pairs))
                ops.append(("ior", form, pairs))
    return ops


def dict_translate(kdom, vdom, op, raw):
    fk = (lambda t: kdom.raw[t]) if raw else kdom.convert
    fv = (lambda t: vdom.raw[t]) if raw else vdom.convert
    name = op[0]
    if name == "setitem":
        return ("setitem", fk(op[1]), fv(op[2]))
    if name == "setdefault":
        if len(op) == 2:
            if raw:
                return ("setdefault", kdom.raw[op[1]])
            return ("setdefault", fk(op[1]), _conv_none(vdom))
        return ("setdefault", fk(op[1]), fv(op[2]))
    if name in ("delitem", "pop"):
        return (name, kdom.raw[op[1]]) + tuple(op[2:])
    if name in ("update", "ior"):
        return (name, op[1], [[fk(k), fv(v)] for k, v in op[2]])
    return op


def _conv_none(vdom):
    if vdom.ok(None):
        return None
    raise TraitError("None is not a valid value")


def dict_step(ctx, live, kdom, vdom, op, cfgname):
    target = live.o.x
    before = dict(target)
    whole_before = snapshot(target)
    live.calls.clear()
    ctx.tr()
    must_raise, model_after, builtin_exc = None, None, None
    ref = dict((k, plain(v)) for k, v in before.items())
    raw_op = dict_translate(kdom, vdom, op, raw=True)
    lookup_hit = op[0] == "setdefault" and raw_op[1] in before
    try:
        conv_op = dict_translate(kdom, vdom, op, raw=False)
    except TraitError:
        conv_op = None
        if not lookup_hit:
            must_raise = "item"
    try:
        c06_dict.do(ref, conv_op if conv_op is not None else raw_op)
    except Exception as e:
        builtin_exc = type(e)
    else:
        if must_raise is None:
            model_after = ref
    try:
        c06_dict.do(target, raw_op)
        exc = None
    except Exception as e:
        exc = e
    after = dict(target)
    key = (cfgname, "outer", plain(before), op)

    def bad(kind, msg):
        ctx.violation("C04:%s:%s:outer:%s" % (kind, cfgname, op[0]), msg,
                      config=cfgname, path="outer", before=plain(before),
                      op=op, observed={"exc": exc and type(exc).__name__,
                                       "after": plain(after),
                                       "handler_calls": list(live.calls)})
    err = live.walk()
    if err:
        bad("invalid-content", "after the operation: " + err)
    if exc is not None:
        ctx.nontriv(key)
        if isinstance(exc, TraitError):
            ctx.outcome("TraitError-" + (must_raise or "other"))
        else:
            ctx.outcome("other-exc")
            if builtin_exc is not type(exc):
                bad("exc-class", "raised %s; model: must_raise=%s builtin=%s"
                    % (type(exc).__name__, must_raise, builtin_exc))
        if snapshot(target) != whole_before:
            bad("failed-op-mutated", "operation raised but contents changed")
        if live.calls:
            bad("failed-op-notified", "operation raised but handlers were "
                "called: %r" % live.calls)
        return
    if must_raise:
        bad("accepted-" + must_raise, "operation with an invalid key/value "
            "did not raise")
        return
    if builtin_exc is not None:
        bad("missing-exc", "succeeded where dict raises %s"
            % builtin_exc.__name__)
        return
    if plain(after) != model_after:
        bad("contents", "contents %r differ from the model %r"
            % (plain(after), model_after))
    if snapshot(target) != whole_before:
        ctx.nontriv(key)
        ctx.outcome("changed")
    else:
        ctx.outcome("noop")


# ---------------------------------------------------------------- set ops
def set_ops(dom, light=False):
    toks = dom.valid[:2] + dom.convertible[:1] + dom.invalid[:2]
    ops = []
    for t in toks:
        ops += [("add", t), ("discard", t), ("remove", t)]
    ops += [("pop",), ("clear",)]
    subs = []
    for r in range(0, 2 if light else 3):
        subs += [list(c) for c in itertools.combinations(toks, r)]
    for sub in subs:
        for form in (["set", "frozenset", "list"] if not light else ["set"]):
            a = [form, sub]
            if form in ("set", "frozenset"):
                ops += [("ior", a), ("iand", a), ("isub", a), ("ixor", a)]
            ops += [("update", [a]), ("symmetric_difference_update", a),
                    ("difference_update", [a]), ("intersection_update", [a])]
    for s1 in subs[:4]:
        for s2 in subs[:6]:
            ops.append(("update", [["list", s1], ["set", s2]]))
    return ops


INSERTING = ("add", "update", "ior", "ixor", "symmetric_difference_update")


def set_translate(dom, op, raw):
    f = (lambda t: dom.raw[t]) if raw else dom.convert
    name = op[0]

    def arg(a):
        vals = []
        for t in a[1]:
            try:
                hash(dom.raw[t])
            except TypeError:
                raise
            vals.append(f(t))
        return [a[0], vals]
    if name in ("add",):
        return (name, f(op[1]))
    if name in ("discard", "remove"):
        return (name, dom.raw[op[1]])
    if name in ("update", "difference_update", "intersection_update"):
        if name == "update":
            return (name, [arg(a) for a in op[1]])
        return (name, [[a[0], [dom.raw[t] for t in a[1]]] for a in op[1]])
    if name in ("ior",):
        return (name, arg(op[1]))
    if name in ("iand", "isub"):
        return (name, [op[1][0], [dom.raw[t] for t in op[1][1]]])
    if name in ("ixor", "symmetric_difference_update"):
        return (name, arg(op[1]))
    return op


def set_step(ctx, live, dom, op, cfgname):
    target = live.o.x
    before = set(target)
    whole_before = snapshot(target)
    live.calls.clear()
    ctx.tr()
    raw_op = set_translate(dom, op, raw=True)
    must_raise = None
    try:
        set_translate(dom, op, raw=False)
    except TraitError:
        must_raise = "item"
    if op[0] in ("ixor", "symmetric_difference_update") and must_raise:
        # items already present (raw membership) are removed, not inserted,
        # so an invalid item that is "present" cannot occur; all invalid
        # tokens are absent from every valid state => still must raise
        pass
    try:
        c07_set.do(target, raw_op)
        exc = None
    except Exception as e:
        exc = e
    after = set(target)
    key = (cfgname, "outer", plain(before), op)

    def bad(kind, msg):
        ctx.violation("C04:%s:%s:outer:%s" % (kind, cfgname, op[0]), msg,
                      config=cfgname, path="outer", before=plain(before),
                      op=op, observed={"exc": exc and type(exc).__name__,
                                       "after": plain(after),
                                       "handler_calls": list(live.calls)})
    err = live.walk()
    if err:
        bad("invalid-content", "after the operation: " + err)
    if exc is not None:
        ctx.nontriv(key)
        if isinstance(exc, TraitError):
            ctx.outcome("TraitError-" + (must_raise or "other"))
        else:
            ctx.outcome("other-exc")
            if not isinstance(exc, (KeyError, TypeError)):
                bad("exc-class", "raised %s" % type(exc).__name__)
        if snapshot(target) != whole_before:
            bad("failed-op-mutated", "operation raised but contents changed")
        if live.calls:
            bad("failed-op-notified", "operation raised but handlers were "
                "called: %r" % live.calls)
        return
    if must_raise:
        bad("accepted-item", "operation inserting an invalid item did not "
            "raise")
        return
    if after != before:
        ctx.nontriv(key)
        ctx.outcome("changed")
    else:
        ctx.outcome("noop")


# ----------------------------------------------------------------- states
def list_states(dom, minlen, maxlen, top):
    toks = dom.valid[:2]
    hi = top if maxlen is None else min(top, maxlen)
    out = []
    for n in range(minlen, hi + 1):
        for combo in itertools.product(toks, repeat=n):
            out.append(list(combo))
    return out


def dict_states(kdom, vdom):
    ks = kdom.valid[:2]
    vs = vdom.valid[:2]
    out = []
    for r in range(len(ks) + 1):
        for kk in itertools.permutations(ks, r):
            for vv in itertools.product(vs, repeat=r):
                out.append([[k, v] for k, v in zip(kk, vv)])
    return out


def set_states(dom):
    toks = dom.valid[:2] + ["c1"]
    out = []
    for r in range(len(toks) + 1):
        out += [list(c) for c in itertools.combinations(toks, r)]
    return out


def install_value(cfg, st):
    k = cfg["kind"]
    if k == "list":
        return [cfg["dom"].raw[t] if not isinstance(cfg["dom"].raw[t], list)
                else list(cfg["dom"].raw[t]) for t in st]
    if k == "dict":
        return {cfg["kdom"].raw[a]: (list(cfg["vdom"].raw[b])
                                     if isinstance(cfg["vdom"].raw[b], list)
                                     else cfg["vdom"].raw[b]) for a, b in st}
    return {cfg["dom"].raw[t] for t in st}


def cases(cfgname, tier, light=False):
    """yield (state, path, op)"""
    cfg = CONFIGS[cfgname]
    top = 3 if tier == "quick" else 4
    if light:
        top = 2
    if cfg["kind"] == "list":
        for st in list_states(cfg["dom"], cfg["minlen"], cfg["maxlen"], top):
            for op in list_ops(cfg["dom"], len(st), tier, light):
                yield st, "outer", op
            if cfg.get("nested") and st:
                inner = cfg["dom"]
                n_inner = len(inner.conv[st[0]])
                for op in list_ops(inner.inner, n_inner, tier, light=True):
                    yield st, "inner0", op
            # whole-value assignment
            for pl in payloads(cfg["dom"], 3 if not light else 2):
                yield st, "assign", ("assign", pl)
                if not light:
                    # the same items carried by a detached deep copy of the
                    # trait's own value (the "working copy" idiom)
                    yield st, "assign", ("assign", pl, "detached")
    elif cfg["kind"] == "dict":
        for st in dict_states(cfg["kdom"], cfg["vdom"]):
            for op in dict_ops(cfg["kdom"], cfg["vdom"], light):
                yield st, "outer", op
            if cfg.get("nested") and st:
                inner = cfg["vdom"]
                n_inner = len(inner.conv[st[0][1]])
                for op in list_ops(inner.inner, n_inner, tier, light=True):
                    yield st, "inner0", op
    else:
        for st in set_states(cfg["dom"]):
            for op in set_ops(cfg["dom"], light):
                yield st, "outer", op


def run_case(ctx, cfgname, live, path, op):
    cfg = CONFIGS[cfgname]
    if path == "assign":
        return assign_step(ctx, live, cfgname, op)
    if cfg["kind"] == "list":
        if path == "outer":
            list_step(ctx, live, live.o.x, cfg["dom"], cfg["minlen"],
                      cfg["maxlen"], op, cfgname, path)
        else:
            inner = cfg["dom"]
            if len(live.o.x):
                list_step(ctx, live, live.o.x[0], inner.inner, inner.minlen,
                          inner.maxlen, op, cfgname, path)
    elif cfg["kind"] == "dict":
        if path == "outer":
            dict_step(ctx, live, cfg["kdom"], cfg["vdom"], op, cfgname)
        else:
            inner = cfg["vdom"]
            if len(live.o.x):
                first = next(iter(live.o.x.values()))
                list_step(ctx, live, first, inner.inner, inner.minlen,
                          inner.maxlen, op, cfgname, path)
    else:
        set_step(ctx, live, cfg["dom"], op, cfgname)


def assign_step(ctx, live, cfgname, op):
    cfg = CONFIGS[cfgname]
    dom = cfg["dom"]
    old = live.o.x
    whole_before = snapshot(old)
    ctx.tr()
    try:
        conv = [dom.convert(t) for t in op[1]]
        must = None
        if len(conv) < cfg["minlen"] or (cfg["maxlen"] is not None
                                         and len(conv) > cfg["maxlen"]):
            must = "length"
    except TraitError:
        must = "item"
    raw = [list(dom.raw[t]) if isinstance(dom.raw[t], list) else dom.raw[t]
           for t in op[1]]
    if len(op) > 2:
        import copy
        carrier = copy.deepcopy(old)
        if isinstance(carrier, list):
            list.clear(carrier)
            list.extend(carrier, raw)       # unvalidated, as on a detached copy
            raw = carrier
    try:
        live.o.x = raw
        exc = None
    except Exception as e:
        exc = e

    def bad(kind, msg):
        ctx.violation("C04:%s:%s:assign%s" % (kind, cfgname,
                                              ":detached" if len(op) > 2
                                              else ""), msg,
                      config=cfgname, path="assign", op=op,
                      observed={"exc": exc and type(exc).__name__,
                                "after": plain(live.o.x)})
    err = live.walk()
    if err:
        bad("invalid-content", "after assignment: " + err)
    if exc is not None:
        ctx.outcome("TraitError-" + (must or "other")
                    if isinstance(exc, TraitError) else "other-exc")
        if not isinstance(exc, TraitError):
            bad("exc-class", "assignment raised %s" % type(exc).__name__)
        if live.o.x is not old or snapshot(old) != whole_before:
            bad("failed-op-mutated", "rejected assignment changed the value")
        return
    if must:
        bad("accepted-" + must, "whole-value assignment that must be refused"
            " (%s) was accepted" % must)
        return
    if plain(list(live.o.x)) != plain(conv):
        bad("contents", "assigned value %r, model %r" % (plain(live.o.x),
                                                          plain(conv)))
    ctx.outcome("changed")
    ctx.nontriv((cfgname, "assign", op))


# ------------------------------------------------------------------- cells
class Node4(HasTraits):
    pass


def cells(ctx):
    import itertools
    from traits.api import Dict as _D, Instance as _I, List as _L, Set as _S

    def bad(what, msg, **case):
        ctx.violation("C04:cell:%s" % what, msg, config="cells",
                      state=[], steps=[], **case)

    # (a) a container nested two deep whose innermost class is given by
    # name (resolved lazily, by the first inner validation)
    for outer_first in (False, True):
        case = {"cell": "nested-byname", "outer_first": outer_first}
        ctx.case({"config": "cells", "state": [], "steps": [], **case})
        ctx.ev()
        ctx.tr()

        class H(HasTraits):
            rows = _L(_L(_I("props.c04_containers.Node4")))
        h = H()
        n = Node4()
        try:
            if outer_first:
                h.rows = [[]]
            h.rows = [[n]]                  # triggers the resolution
            h.rows.append([n, None])        # rows are lists of nodes
            h.rows[0].append(Node4())
        except Exception as exc:
            bad("nested-byname:valid-refused", "valid nested rows refused: "
                "%r" % (exc,), **case)
            continue
        for inval in (n, None, [5], "ab"):
            try:
                h.rows.append(inval)
                bad("nested-byname:invalid-row", "List(List(Instance(name))) "
                    "accepted the row %r" % (inval,), **case)
                break
            except TraitError:
                ctx.outcome("nested-TraitError")
    # (b) the default of a List with minlen > 0: a read gives a list inside
    # the bounds or raises TraitError; never a list outside them
    for mk, label in ((lambda: _L(Int, minlen=1), "no-default"),
                      (lambda: _L(Int, [], minlen=1), "empty-default"),
                      (lambda: _L(Int, [1, 2, 3], minlen=1, maxlen=2),
                       "long-default")):
        case = {"cell": "default-length", "which": label}
        ctx.case({"config": "cells", "state": [], "steps": [], **case})
        ctx.ev()
        ctx.tr()
        try:
            class H2(HasTraits):
                xs = mk()
            v = H2().xs
        except (TraitError, ValueError):
            ctx.outcome("TraitError-length")
            continue
        except Exception as exc:
            bad("default-length:raises", "%s: %r" % (label, exc), **case)
            continue
        lo, hi = 1, (2 if label == "long-default" else None)
        if len(v) < lo or (hi is not None and len(v) > hi):
            bad("default-length:%s" % label, "the default of a List with "
                "length bounds %s..%s reads as %r" % (lo, hi, list(v)),
                **case)
        else:
            ctx.outcome("changed")
    # (c) one container definition used for two attributes; one attribute's
    # value assigned to the other: two containers, each with its own events
    for kind in ("list", "dict", "set"):
        case = {"cell": "shared-definition", "kind": kind}
        ctx.case({"config": "cells", "state": [], "steps": [], **case})
        ctx.ev()
        ctx.tr()
        shared = {"list": lambda: _L(CInt), "dict": lambda: _D(Str, CInt),
                  "set": lambda: _S(CInt)}[kind]()
        log = []

        class H3(HasTraits):
            home = shared
            away = shared

            def _home_items_changed(self, ev):
                log.append("home")

            def _away_items_changed(self, ev):
                log.append("away")
        h = H3()
        h.home = {"list": [1], "dict": {"a": 1}, "set": {1}}[kind]
        try:
            h.away = h.home
            if kind == "list":
                h.away.append("3")
                h.away.pop()
            elif kind == "dict":
                h.away["z"] = "3"
                del h.away["z"]
            else:
                h.away.add("3")
                h.away.discard(3)
        except Exception as exc:
            bad("shared-definition:raises:%s" % kind, "obj.away = obj.home "
                "followed by a valid mutation raised %r" % (exc,), **case)
            continue
        if h.away is h.home:
            bad("shared-definition:same-object:%s" % kind, "obj.away = "
                "obj.home made both attributes hold one container", **case)
            continue
        log.clear()
        if kind == "list":
            h.away.append("2")
        elif kind == "dict":
            h.away["b"] = "2"
        else:
            h.away.add("2")
        if log != ["away"] or len(h.home) != 1 or len(h.away) != 2:
            bad("shared-definition:crosstalk:%s" % kind, "after obj.away = "
                "obj.home a mutation of away called %r, home %r away %r"
                % (log, h.home, h.away), **case)
            continue
        try:
            if kind == "list":
                h.away.append("x")
            elif kind == "dict":
                h.away["c"] = "x"
            else:
                h.away.add("x")
            bad("shared-definition:invalid:%s" % kind, "invalid item "
                "accepted", **case)
        except TraitError:
            ctx.outcome("TraitError-item")


    # (d) the same container trait declared in its other supported forms:
    # legacy Trait(default, container trait), on the class and through
    # add_trait; the *default* (never assigned) is as guarded as any value
    from traits.api import Trait as _T
    forms = {
        "list": (lambda: _T([1, 2], _L(Int, maxlen=3)),
                 lambda v: v.append("bad"), lambda v: v.extend([3, 4, 5]),
                 lambda v: v.append(3)),
        "dict": (lambda: _T({"a": 1}, _D(Str, Int)),
                 lambda v: v.__setitem__("b", "bad"),
                 lambda v: v.update({5: 1}), lambda v: v.__setitem__("b", 2)),
        "set": (lambda: _T({1}, _S(Int)),
                lambda v: v.add("bad"), lambda v: v.update({2, "x"}),
                lambda v: v.add(2)),
    }
    for kind, (mk, inv1, inv2, valid) in forms.items():
        for how in ("class", "add_trait"):
            case = {"cell": "legacy-declaration", "kind": kind, "how": how}
            ctx.case({"config": "cells", "state": [], "steps": [], **case})
            ctx.ev()
            ctx.tr()
            try:
                if how == "class":
                    class H4(HasTraits):
                        c = mk()
                    objs = [H4(), H4()]
                else:
                    objs = [HasTraits(), HasTraits()]
                    for o in objs:
                        o.add_trait("c", mk())
                v = objs[0].c
            except Exception as exc:
                bad("legacy-declaration:raises:%s:%s" % (kind, how),
                    "declaring / reading raised %r" % (exc,), **case)
                continue
            before = repr(v)
            for i, inv in enumerate((inv1, inv2)):
                try:
                    inv(v)
                    bad("legacy-declaration:default-unguarded:%s:%s" % (
                        kind, how), "the never-assigned default of "
                        "Trait(<default>, <%s trait>) accepted an invalid "
                        "mutation; it now reads %r" % (kind, v), **case)
                    break
                except TraitError:
                    ctx.outcome("TraitError-item")
                if repr(v) != before:
                    bad("legacy-declaration:refused-changed:%s:%s" % (
                        kind, how), "a refused mutation changed the default "
                        "to %r" % (v,), **case)
            try:
                valid(v)
            except Exception as exc:
                bad("legacy-declaration:valid-refused:%s:%s" % (kind, how),
                    "a valid mutation of the default raised %r" % (exc,),
                    **case)
                continue
            other = objs[1].c
            if other is v or repr(other) != before:
                bad("legacy-declaration:shared-default:%s:%s" % (kind, how),
                    "the default is shared between instances (the other "
                    "instance reads %r)" % (other,), **case)


def shards(tier):
    out = [{"kind": "cells", "config": "cells"}]
    n = 4 if tier == "quick" else 8
    for cfgname in CONFIGS:
        for c in range(n):
            out.append({"kind": "all", "config": cfgname, "chunk": c, "of": n})
        for c in range(n):
            out.append({"kind": "depth2", "config": cfgname, "chunk": c,
                        "of": n})
    return out


def run_shard(ctx, shard, tier):
    cfgname = shard["config"]
    if cfgname == "cells":
        cells(ctx)
        ctx.depth_completed = 1
        return
    cfg = CONFIGS[cfgname]
    if shard["kind"] == "all":
        last = None
        for i, (st, path, op) in enumerate(cases(cfgname, tier)):
            if i % shard["of"] != shard["chunk"]:
                continue
            ctx.case({"config": cfgname, "state": st, "steps": [[path, op]]})
            ctx.ev()
            live = Live(cfgname, install_value(cfg, st))
            ctx.state((cfgname, plain(live.o.x)))
            run_case(ctx, cfgname, live, path, op)
            ctx.state((cfgname, plain(live.o.x)))
            last = {"config": cfgname, "state": st, "path": path, "op": op}
        if last:
            ctx.sample(last)
        ctx.depth_completed = 1
        return
    # depth 2: every light op, then every light op, from the short states
    firsts = list(cases(cfgname, tier, light=True))
    seconds_cache = {}
    for i, (st, path, op1) in enumerate(firsts):
        if i % shard["of"] != shard["chunk"]:
            continue
        if tier == "quick" and len(st) > 1:
            continue
        live = Live(cfgname, install_value(cfg, st))
        nviol = ctx.nviol
        run_case(ctx, cfgname, live, path, op1)
        if ctx.nviol != nviol:
            continue
        # second operations are those enabled in the *reached* state shape
        n_after = len(live.o.x)
        if cfg["kind"] == "list":
            sec = [("outer", o) for o in list_ops_tiny(cfg["dom"], n_after)]
            if cfg.get("nested") and n_after:
                sec += [("inner0", o) for o in list_ops_tiny(
                    cfg["dom"].inner, len(live.o.x[0]))]
        elif cfg["kind"] == "dict":
            sec = [("outer", o) for o in dict_ops(cfg["kdom"], cfg["vdom"],
                                                  light=True)]
            if cfg.get("nested") and n_after:
                first = next(iter(live.o.x.values()))
                sec += [("inner0", o) for o in list_ops_tiny(
                    cfg["vdom"].inner, len(first))]
        else:
            sec = [("outer", o) for o in set_ops(cfg["dom"], light=True)]
        for path2, op2 in sec:
            ctx.case({"config": cfgname, "state": st,
                      "steps": [[path, op1], [path2, op2]]})
            ctx.ev()
            live = Live(cfgname, install_value(cfg, st))
            run_case(ctx, cfgname, live, path, op1)
            run_case(ctx, cfgname, live, path2, op2)
            ctx.state((cfgname, plain(live.o.x)))
    ctx.depth_completed = 2


def replay(rec):
    from mc.ctx import Ctx
    ctx = Ctx("C04", None, "quick", 0)
    case = rec["case"]
    cfgname = case["config"]
    if cfgname == "cells":
        cells(ctx)
        for v in ctx.violations.values():
            print("  violation:", v["sig"], v["msg"])
        return not ctx.violations
    live = Live(cfgname, install_value(CONFIGS[cfgname], case["state"]))
    print("state:", plain(live.o.x))
    for path, op in case["steps"]:
        op = tuple(op)
        run_case(ctx, cfgname, live, path, op)
        print("step", path, op, "->", plain(live.o.x), "calls", live.calls)
    for v in ctx.violations.values():
        print("  violation:", v["sig"], v["msg"])
        print("  observed:", v["record"].get("observed"))
    return not ctx.violations
