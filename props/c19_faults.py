"""C19 — a failing user callback never leaves an object half-updated.

For every scenario (operation with user callbacks) and pre-state: one
fault-free run counts the callback invocations n; then for every k <= n and
every exception class the k-th invocation raises, on freshly built objects.
"""
import gc
import warnings

from traits.adaptation.api import (AdaptationManager,
                                   get_global_adaptation_manager,
                                   set_global_adaptation_manager)
from traits.api import (Any, Dict, Either, HasTraits, Instance, Int, List,
                        Property, Set, Str, Supports, TraitError, TraitType,
                        Union, cached_property, observe)
from traits.observation.api import match, trait
from traits.trait_dict_object import TraitDict
from traits.trait_list_object import TraitList
from traits.trait_set_object import TraitSet

from props import graphs as G

LEVEL = "model_checking"
RULE = ("per scenario (operation x pre-state): the fault-free run counts the "
        "user-callback invocations n; every (k <= n, exception class in "
        "{TraitError, ValueError, AttributeError, RuntimeError, RuntimeError with a non-string first argument}) is injected "
        "on fresh objects; non-trivial = every injected execution; distinct ="
        " distinct (scenario, pre-state, k, exception class)")
EXPLANATION = ("exhaustive single-fault injection at every user-callback "
               "invocation; reference = pre-state snapshot (outcome-deciding "
               "callbacks) or the fault-free twin (change handlers), plus a "
               "fixed follow-up suite compared with the twin")
BOUNDS = {"quick": "53 scenarios x 2 pre-states, one fault per operation, 5 exception flavours; 28 nested-policy cells",
          "thorough": "same + longer payloads (k up to 6 items)"}
ASSUMPTIONS = ["one injected fault per operation", "post_setattr is not in "
               "the statement's list of callbacks", "trait_set/constructor "
               "driven with a single keyword"]
MIN_OUTCOMES = {t: ["deciding-no-effect", "handler-contained",
                    "followup-equal", "injected-unchanged", "as-TraitError"]
                for t in ("quick", "thorough")}
TIMEOUT = {"quick": 1200, "thorough": 7200}

def _runtime_error_with_code(msg):
    # an exception whose first argument is not a string
    return RuntimeError(3, msg)


EXC = {"TraitError": TraitError, "ValueError": ValueError,
       "AttributeError": AttributeError, "RuntimeError": RuntimeError,
       "RuntimeError(3, msg)": _runtime_error_with_code}


class Injector:
    def __init__(self):
        self.reset(None, None)

    def reset(self, k, exc):
        self.k, self.exc = k, exc
        self.count = 0
        self.sites = []
        self.raised = None
        self.active = False

    def point(self, site):
        if not self.active:
            return
        self.count += 1
        self.sites.append(site)
        if self.k is not None and self.count == self.k:
            self.raised = self.exc("injected at %s #%d" % (site, self.count))
            raise self.raised


INJ = Injector()


class Custom(TraitType):
    """validates ints >= 0; instrumented"""
    default_value = 0
    info_text = "a non-negative int"

    def validate(self, object, name, value):
        INJ.point("validate")
        if isinstance(value, int) and value >= 0:
            return value
        self.error(object, name, value)


def item_validator(x):
    INJ.point("item_validator")
    if isinstance(x, int):
        return x
    raise TraitError("bad item")


class A(HasTraits):
    v = Int


def factory():
    INJ.point("factory")
    return A(v=1)


class GP:
    """global-manager protocol: A adapts to it through an instrumented
    factory"""

    def __init__(self, adaptee):
        self.adaptee = adaptee


def global_factory(adaptee):
    INJ.point("adapter_factory_g")
    return GP(adaptee)


class Obj(HasTraits):
    x = Custom()
    #: compound whose first alternative adapts and whose second accepts the
    #: raw value
    sup = Either(Supports(GP), Instance(A))
    #: legacy dependency mechanism, cached
    pd = Property(Int, depends_on="x")

    @cached_property
    def _get_pd(self):
        INJ.point("cached_getter")
        return self.x * 10
    u = Union(Str, Custom())
    lst = List(Custom())
    dct = Dict(Custom(), Custom())
    st = Set(Custom())
    dyn = Any
    fac = Instance(A, factory=factory)
    pv = Property(Custom())
    pc = Property(Int, observe="x")
    plain = Int
    log = Any

    def _dyn_default(self):
        INJ.point("_dyn_default")
        return [1]

    def _get_pv(self):
        INJ.point("getter")
        return self.__dict__.get("_pv", 0)

    def _set_pv(self, value):
        INJ.point("setter")
        self.__dict__["_pv"] = value

    @cached_property
    def _get_pc(self):
        INJ.point("cached_getter")
        return self.x * 2

    def _x_changed(self, old, new):
        self.__dict__.setdefault("_calls", []).append(("static", new))
        INJ.point("static_handler")

    def _lst_items_changed(self, ev):
        self.__dict__.setdefault("_calls", []).append(("static_items",
                                                       len(ev.added)))
        INJ.point("static_items_handler")

    def _dct_items_changed(self, ev):
        self.__dict__.setdefault("_calls", []).append(("static_dct_items",
                                                       len(ev.added)))
        INJ.point("static_items_handler")

    def _st_items_changed(self, ev):
        self.__dict__.setdefault("_calls", []).append(("static_st_items",
                                                       len(ev.added)))
        INJ.point("static_items_handler")

    def _anytrait_changed(self, name, old, new):
        if name == "plain":
            self.__dict__.setdefault("_calls", []).append(("anytrait", new))
            INJ.point("anytrait_handler")


class World:
    def __init__(self, pre):
        self.o = Obj()
        self.calls = self.o.__dict__.setdefault("_calls", [])
        calls = self.calls

        def otc(new):
            calls.append(("otc", new))
            INJ.point("otc_handler")

        def obs(ev):
            calls.append(("obs", getattr(ev, "new", None)))
            INJ.point("observe_handler")

        def otc2(new):
            calls.append(("otc2", new))

        def obs2(ev):
            calls.append(("obs2", getattr(ev, "new", None)))

        def obs_items(ev):
            calls.append(("obs_items", len(ev.added)))
            INJ.point("observe_items_handler")
        def obs_ditems(ev):
            calls.append(("obs_dct_items", len(ev.added)))
            INJ.point("observe_items_handler")

        def obs_sitems(ev):
            calls.append(("obs_st_items", len(ev.added)))
            INJ.point("observe_items_handler")

        def obs_nested(ev):
            calls.append(("obs_nested", ev.new))
            INJ.point("observe_handler")

        def otc_plain(new):
            calls.append(("otc_plain", new))
            INJ.point("otc_handler")
        self.h = (otc, obs, otc2, obs2, obs_items, obs_ditems, obs_sitems,
                  obs_nested, otc_plain)
        self.o.observe(obs_ditems, "dct.items")
        self.o.observe(obs_sitems, "st.items")
        self.o.observe(obs_nested, "fac:v")
        self.o.on_trait_change(otc_plain, "plain")

        def otc_log(new):
            calls.append(("otc_log", type(new).__name__))
            INJ.point("otc_handler")

        def obs_log(ev):
            calls.append(("obs_log", type(ev.new).__name__))
            INJ.point("observe_handler")

        def otc_pd(new):
            calls.append(("otc_pd", new))
        self.h = self.h + (otc_pd,)
        self.o.on_trait_change(otc_pd, "pd")
        self.h = self.h + (otc_log, obs_log)
        self.o.on_trait_change(otc_log, "log")
        self.o.observe(obs_log, "log")
        self.o.on_trait_change(otc, "x")
        self.o.on_trait_change(otc2, "x")
        self.o.observe(obs, "x")
        self.o.observe(obs2, "x")
        self.o.observe(obs_items, "lst.items")
        self.raw_list = TraitList([1, 2], item_validator=item_validator,
                                  notifiers=[self._raw_notifier])
        self.raw_dict = TraitDict({1: 1}, key_validator=item_validator,
                                  value_validator=item_validator,
                                  notifiers=[self._raw_notifier])
        self.raw_set = TraitSet({1}, item_validator=item_validator,
                                notifiers=[self._raw_notifier])
        self.mgr = AdaptationManager()
        for i, (f, g) in enumerate(((A, P1), (P1, P2), (P2, P3))):
            self.mgr.register_factory(adapter_factory(i, g), f, g)
        self.adaptee = A()
        self.adapted = None
        # containers are materialised in every pre-state (their first read
        # is an event of its own, not part of the operations under test)
        self.o.lst, self.o.dct, self.o.st
        if pre == "stored":
            self.o.x = 3
            self.o.u = 4
            self.o.lst = [1, 2]
            self.o.dct = {1: 1}
            self.o.st = {1}
            self.o.pv = 2
            self.o.pc
            self.o.pd
            self.o.dyn
            self.o.fac
        calls.clear()

    def _raw_notifier(self, *args):
        self.calls.append(("raw", len(args)))


class P1:
    def __init__(self, adaptee):
        self.adaptee = adaptee


class P2:
    def __init__(self, adaptee):
        self.adaptee = adaptee


class P3:
    def __init__(self, adaptee):
        self.adaptee = adaptee


def adapter_factory(i, cls):
    def f(adaptee):
        INJ.point("adapter_factory_%d" % i)
        return cls(adaptee)
    return f


class BadRepr:
    def __repr__(self):
        raise RuntimeError("repr raises")

    __str__ = __repr__


def filter_fn(name, ctrait):
    INJ.point("match_filter")
    return name in ("x", "plain")


# name -> (operation, kind of its callbacks)
def _obs_handler(ev):
    pass


def _otc_ext_handler(obj, name, old, new):
    pass


SCENARIOS = {
    "assign-custom": lambda w: setattr(w.o, "x", 5),
    "assign-custom-invalid": lambda w: setattr(w.o, "x", -5),
    "assign-union-second": lambda w: setattr(w.o, "u", 7),
    "trait_set": lambda w: w.o.trait_set(x=6),
    "trait_setq": lambda w: w.o.trait_setq(x=6),
    "trait_set-quiet-flag": lambda w: w.o.trait_set(
        trait_change_notify=False, x=6),
    "constructor": lambda w: Obj(x=6),
    "read-dyn-default": lambda w: w.o.dyn,
    "read-factory-default": lambda w: w.o.fac,
    "del-dyn": lambda w: delattr(w.o, "dyn"),
    "prop-get": lambda w: w.o.pv,
    "prop-set": lambda w: setattr(w.o, "pv", 9),
    "prop-cached-get": lambda w: w.o.pc,
    "prop-depends-get": lambda w: w.o.pd,
    "list-append": lambda w: w.o.lst.append(3),
    "list-extend3": lambda w: w.o.lst.extend([3, 4, 5]),
    "list-slice-set": lambda w: w.o.lst.__setitem__(slice(0, 1), [7, 8]),
    "list-iadd": lambda w: w.o.lst.__iadd__([3, 4]),
    "list-assign": lambda w: setattr(w.o, "lst", [5, 6, 7]),
    "list-insert": lambda w: w.o.lst.insert(0, 9),
    "list-setitem": lambda w: w.o.lst.__setitem__(0, 9)
    if len(w.o.lst) else w.o.lst.append(9),
    "dict-setitem": lambda w: w.o.dct.__setitem__(2, 2),
    "dict-update2": lambda w: w.o.dct.update({2: 2, 3: 3}),
    "dict-ior": lambda w: w.o.dct.__ior__({2: 2, 3: 3}),
    "dict-setdefault": lambda w: w.o.dct.setdefault(4, 4),
    "dict-assign": lambda w: setattr(w.o, "dct", {5: 5, 6: 6}),
    "set-add": lambda w: w.o.st.add(2),
    "set-update2": lambda w: w.o.st.update([2, 3], [4]),
    "set-ior": lambda w: w.o.st.__ior__({2, 3}),
    "set-ixor": lambda w: w.o.st.__ixor__({1, 5}),
    "set-symdiff": lambda w: w.o.st.symmetric_difference_update([1, 5]),
    "set-assign": lambda w: setattr(w.o, "st", {7, 8}),
    "raw-list-extend3": lambda w: w.raw_list.extend([3, 4, 5]),
    "raw-list-slice": lambda w: w.raw_list.__setitem__(slice(None, None, 2),
                                                       [7]),
    "raw-list-iadd": lambda w: w.raw_list.__iadd__([3, 4]),
    "raw-dict-update": lambda w: w.raw_dict.update([(2, 2), (3, 3)]),
    "raw-dict-ior": lambda w: w.raw_dict.__ior__({2: 2, 3: 3}),
    "raw-set-update2": lambda w: w.raw_set.update([2, 3], [4, 5]),
    "raw-set-ior": lambda w: w.raw_set.__ior__({2, 3}),
    "raw-set-symdiff": lambda w: w.raw_set.symmetric_difference_update(
        [1, 5, 6]),
    "assign-plain": lambda w: setattr(w.o, "plain", 7),
    "nested-assign": lambda w: setattr(w.o.fac, "v", 9),
    "dict-del": lambda w: w.o.dct.pop(1, None),
    "set-discard": lambda w: w.o.st.discard(1),
    "list-pop": lambda w: w.o.lst.pop() if len(w.o.lst) else None,
    "list-sort": lambda w: w.o.lst.sort(reverse=True),
    "assign-compound-adapter": lambda w: setattr(w.o, "sup", A(v=5)),
    "adapt-chain3": lambda w: setattr(w, "adapted",
                                      w.mgr.adapt(w.adaptee, P3)),
    "observe-register-match": lambda w: w.o.observe(
        _obs_handler, match(filter_fn).then(trait("v", optional=True))),
    "observe-register-parallel-match": lambda w: w.o.observe(
        _obs_handler, trait("plain") | match(filter_fn)),
    "observe-unregister-parallel-match": None,
    "assign-badrepr": lambda w: setattr(w.o, "log", BadRepr()),
    # registering under an extended name walks the links and computes
    # their defaults
    "otc-register-extended": lambda w: w.o.on_trait_change(
        _otc_ext_handler, "fac.v"),
    "observe-register-extended": lambda w: w.o.observe(
        _obs_handler, "fac.v"),
    "observe-unregister-match": None,       # built below
}


def _unregister(w):
    w.o.observe(_obs_handler, match(filter_fn), remove=True)


def _register_first(w):
    INJ.active = False
    w.o.observe(_obs_handler, match(filter_fn))
    INJ.active = True


def _unregister_par(w):
    w.o.observe(_obs_handler, trait("plain") | match(filter_fn), remove=True)


def _register_par_first(w):
    INJ.active = False
    w.o.observe(_obs_handler, trait("plain") | match(filter_fn))
    INJ.active = True


SCENARIOS["observe-unregister-match"] = _unregister
SCENARIOS["observe-unregister-parallel-match"] = _unregister_par
PREPARE = {"observe-unregister-match": _register_first,
           "observe-unregister-parallel-match": _register_par_first}
HANDLER_SITES = ("static_handler", "otc_handler", "observe_handler",
                 "static_items_handler", "observe_items_handler",
                 "anytrait_handler")


def plain(v):
    if isinstance(v, BadRepr):
        return "<BadRepr>"
    if isinstance(v, HasTraits):
        return ("A", v.v) if isinstance(v, A) else "obj"
    if isinstance(v, (list, tuple)):
        return [plain(x) for x in v]
    if isinstance(v, dict):
        return sorted((repr(k), plain(x)) for k, x in v.items())
    if isinstance(v, (set, frozenset)):
        return sorted(map(repr, v))
    if v is None or isinstance(v, (int, float, str, bytes, bool)):
        return v
    return "<%s>" % type(v).__name__


def snapshot(w):
    d = w.o.__dict__
    vals = {k: (id(v) if isinstance(v, (list, dict, set, HasTraits)) else 0,
                plain(v)) for k, v in d.items() if k not in ("_calls",)}
    return {"dict": vals, "fingerprint": fp(w.o),
            "raw": (list(w.raw_list), dict(w.raw_dict),
                    sorted(w.raw_set)),
            "adapted": type(w.adapted).__name__,
            "quiet": w.o._trait_change_notify_flag()
            if hasattr(w.o, "_trait_change_notify_flag") else None}


def state_only(w):
    """values without identities (for comparison with the twin)"""
    d = w.o.__dict__
    return {"dict": {k: plain(v) for k, v in d.items()
                     if k not in ("_calls",)
                     and not k.startswith("_traits_cache_")},
            "fingerprint": fp(w.o),
            "raw": (list(w.raw_list), dict(w.raw_dict), sorted(w.raw_set)),
            "adapted": type(w.adapted).__name__}


def fp(o):
    out = [sorted(G.notifier_fp(n) for n in (o._notifiers(False) or []))]
    for name in sorted(o.trait_names()):
        t = o._trait(name, 0)
        ns = t._notifiers(False) if t is not None else None
        if ns:
            out.append((name, sorted(G.notifier_fp(n) for n in ns)))
    for cname in ("lst", "dct", "st"):
        c = o.__dict__.get(cname)
        if c is not None:
            out.append((cname + "#", len(c.notifiers)))
    return out


def followup(w):
    """fixed follow-up suite; returns the observation trace"""
    INJ.active = False
    obs = []
    o = w.o
    w.calls.clear()

    def rec(f):
        try:
            r = f()
            obs.append(("ok", plain(r)))
        except Exception as e:
            obs.append((type(e).__name__,))
    rec(lambda: o.pd)       # (reads first: a cache refilled right after the
    rec(lambda: o.pc)       #  fault must still be invalidated by the next change)
    rec(lambda: o.x)
    rec(lambda: setattr(o, "x", 11))
    rec(lambda: o.x)
    rec(lambda: o.pc)
    rec(lambda: o.pd)
    rec(lambda: setattr(o, "x", 12))
    rec(lambda: o.pd)
    rec(lambda: setattr(o, "x", -1))
    rec(lambda: o.lst.append(21))
    rec(lambda: o.lst.append("bad"))
    rec(lambda: list(o.lst))
    rec(lambda: o.dct.update({9: 9}))
    rec(lambda: o.st.add(9))
    rec(lambda: o.dyn)
    rec(lambda: o.fac)
    rec(lambda: setattr(o, "pv", 4))
    rec(lambda: o.pv)
    rec(lambda: setattr(o, "u", "s"))
    rec(lambda: w.raw_list.append(5))
    rec(lambda: w.raw_set.update([8]))
    rec(lambda: setattr(o, "plain", 2))
    obs.append(("calls", list(w.calls)))
    obs.append(("state", state_only(w)))
    return obs


_MGR = AdaptationManager()
_MGR.register_factory(global_factory, A, GP)
set_global_adaptation_manager(_MGR)


def run(name, pre, k, exc_name):
    """-> (world, caller outcome, injected exception or None, sites)"""
    w = World(pre)
    INJ.reset(k, EXC.get(exc_name))
    prep = PREPARE.get(name)
    if prep:
        prep(w)
    pre_snap = snapshot(w)
    INJ.active = True
    try:
        with warnings.catch_warnings():
            warnings.simplefilter("ignore")
            SCENARIOS[name](w)
        out = ("ok",)
    except BaseException as e:
        out = ("raised", e)
    finally:
        INJ.active = False
    return w, out, pre_snap


def scenario(ctx, name, pre):
    run(name, pre, None, None)      # warm-up (class-level caches)
    w0, out0, pre0 = run(name, pre, None, None)
    n = INJ.count
    sites = list(INJ.sites)
    twin_follow = followup(w0)          # fault-free twin
    # twin on which the operation was never performed
    w_never = World(pre)
    prep = PREPARE.get(name)
    if prep:
        prep(w_never)
    never_follow = followup(w_never)
    ctx.state((name, pre, n))
    for k in range(1, n + 1):
        site = sites[k - 1]
        for exc_name in EXC:
            ctx.case({"scenario": name, "pre": pre, "k": k,
                      "exc": exc_name, "site": site})
            ctx.ev()
            ctx.tr()
            ctx.nontriv((name, pre, k, exc_name))
            w, out, pre_snap = run(name, pre, k, exc_name)
            injected = INJ.raised

            def bad(kind, msg):
                ctx.violation("C19:%s:%s:%s" % (kind, name, site), msg,
                              scenario=name, pre=pre, k=k, exc=exc_name,
                              site=site)
            if injected is None:
                bad("harness", "fault point %d not reached on replay" % k)
                continue
            # (a property getter that runs while the property's own change
            #  notification is being built is in the same position as a
            #  change handler: the operation that triggered it is complete)
            if site in HANDLER_SITES or (site == "cached_getter" and
                                         name not in ("prop-cached-get",
                                                      "prop-depends-get")):
                # the operation is complete, all other handlers still ran
                if out[0] != "ok" and out0[0] == "ok":
                    bad("handler-fault-propagated", "a failing change "
                        "handler made the operation raise %r" % (out[1],))
                    continue
                st, st0 = state_only(w), state_only(w0) if False else None
                w_ref, _, _ = run(name, pre, None, None)
                ref_calls = list(w_ref.calls)
                got_calls = list(w.calls)
                if site == "cached_getter":
                    # the failing getter's own property cannot be announced
                    # (its new value could not be computed)
                    ref_calls = [c for c in ref_calls if c[0] != "otc_pd"]
                    got_calls = [c for c in got_calls if c[0] != "otc_pd"]
                if state_only(w) != state_only(w_ref):
                    bad("handler-fault-state", "with a failing change "
                        "handler the final state differs from the "
                        "fault-free run")
                elif got_calls != ref_calls:
                    bad("handler-fault-others", "other handlers were not "
                        "all called: %r vs fault-free %r" % (got_calls,
                                                             ref_calls))
                else:
                    ctx.outcome("handler-contained")
                fu, fu_ref = followup(w), followup(w_ref)
                if fu != fu_ref:
                    i = next(i for i, (a, b) in enumerate(zip(fu, fu_ref))
                             if a != b)
                    bad("followup-differs", "follow-up step %d: %r, "
                        "fault-free twin %r" % (i, fu[i], fu_ref[i]))
                else:
                    ctx.outcome("followup-equal")
                continue
            # outcome-deciding callback
            if out[0] == "ok":
                bad("fault-swallowed", "the callback raised %s but the "
                    "operation completed normally" % exc_name)
            else:
                e = out[1]
                if e is injected:
                    ctx.outcome("injected-unchanged")
                elif isinstance(e, TraitError):
                    ctx.outcome("as-TraitError")
                else:
                    bad("foreign-exception", "caller received %r instead of "
                        "the injected %s or a TraitError" % (e, exc_name))
            after = snapshot(w)
            if after != pre_snap:
                diff = [key for key in after if after[key] != pre_snap[key]]
                det = ""
                if "dict" in diff:
                    det = " %r" % sorted(
                        kk for kk in set(after["dict"]) | set(pre_snap["dict"])
                        if after["dict"].get(kk) != pre_snap["dict"].get(kk))
                bad("effect:%s" % ",".join(diff), "the failed operation "
                    "changed %s%s" % (diff, det))
            else:
                ctx.outcome("deciding-no-effect")
            if w.calls:
                bad("notified", "the failed operation called handlers: %r"
                    % (w.calls[:4],))
            fu = followup(w)
            if fu != never_follow:
                i = next(i for i, (a, b) in enumerate(zip(fu, never_follow))
                         if a != b)
                bad("followup-differs", "follow-up step %d: %r, on an object"
                    " that never saw the failure %r" % (i, fu[i],
                                                        never_follow[i]))
            else:
                ctx.outcome("followup-equal")


def nested_policy_cells(ctx):
    """The containment policy for failing change handlers is a stack: after
    a temporary policy has been pushed and popped again (in every nesting up
    to depth 3), a failing handler is contained as before: the operation
    completes and the other handlers run"""
    import itertools
    from traits.api import HasTraits as _HT, Int as _Int, List as _L
    import traits.api as TA
    import traits.observation.api as OA
    for api_name, api in (("observe", OA), ("on_trait_change", TA)):
        for depth in (1, 2, 3):
            for flags in itertools.product((True, False), repeat=depth):
                ctx.case({"cell": "nested-policy", "api": api_name,
                          "pushed": list(flags)})
                ctx.ev()
                ctx.tr()

                class M(_HT):
                    value = _Int
                    items = _L(_Int)
                contained = []
                if api_name == "observe":
                    api.push_exception_handler(
                        handler=lambda ev: contained.append(1),
                        reraise_exceptions=False)
                else:
                    api.push_exception_handler(
                        handler=lambda o, n, old, new: contained.append(1),
                        reraise_exceptions=False, main=True)
                try:
                    for f in flags:
                        if api_name == "observe":
                            api.push_exception_handler(reraise_exceptions=f)
                        else:
                            api.push_exception_handler(
                                handler=lambda o, n, old, new: None,
                                reraise_exceptions=f, main=True)
                    for _ in flags:
                        api.pop_exception_handler()
                    m = M()
                    seen = []

                    def failing(*a):
                        raise ValueError("handler fails")

                    def other(*a):
                        seen.append(1)
                    if api_name == "observe":
                        m.observe(failing, "value")
                        m.observe(other, "value")
                    else:
                        m.on_trait_change(failing, "value")
                        m.on_trait_change(other, "value")
                    try:
                        m.value = 5
                        raised = None
                    except Exception as exc:
                        raised = exc
                finally:
                    api.pop_exception_handler()
                if raised is not None or m.value != 5 or seen != [1] or \
                        contained != [1]:
                    ctx.violation(
                        "C19:nested-policy:%s" % api_name,
                        "after pushing %r temporary %s policies and popping "
                        "them again, a failing handler: raised %r, value %r, "
                        "other handler calls %r, outer policy told %r" % (
                            list(flags), api_name, raised, m.value, seen,
                            contained),
                        scenario="nested-policy", pre="fresh", k=depth,
                        exc="ValueError", site=api_name)
                else:
                    ctx.outcome("handler-contained")


def shards(tier):
    out = [{"scenario": "__nested_policy__", "pre": "fresh"}]
    for name in SCENARIOS:
        for pre in ("fresh", "stored"):
            out.append({"scenario": name, "pre": pre})
    return out


def run_shard(ctx, shard, tier):
    if shard["scenario"] == "__nested_policy__":
        nested_policy_cells(ctx)
        ctx.depth_completed = 1
        return
    scenario(ctx, shard["scenario"], shard["pre"])
    gc.collect()
    ctx.sample({"scenario": shard["scenario"], "pre": shard["pre"], "k": 1,
                "exc": "ValueError"})
    ctx.depth_completed = 1


def replay(rec):
    from mc.ctx import Ctx
    ctx = Ctx("C19", None, "quick", 0)
    c = rec.get("case") or rec
    if c.get("cell") == "nested-policy" or \
            c.get("scenario") == "nested-policy":
        nested_policy_cells(ctx)
    else:
        scenario(ctx, c["scenario"], c["pre"])
    for v in ctx.violations.values():
        print("  violation:", v["sig"], v["msg"])
    return not ctx.violations
