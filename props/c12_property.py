"""C12 — observed/cached properties are never stale and announce changes."""
import copy
import gc
import pickle

from traits.api import (Any, Dict, HasTraits, Instance, Int, List, Property,
                        Set, Str, cached_property)

from props import graphs as G

LEVEL = "model_checking"
RULE = ("every history up to the depth bound over dependency mutations "
        "(scalar, Instance reassignment, list/dict/set item mutation with "
        "duplicates and sharing), explicit cache-filling reads and copy "
        "events (pickle / deepcopy / clone_traits) on a 3-object pool; at "
        "the end of every history every property is read twice; non-trivial "
        "= a history whose last step altered some recomputed property value;"
        " distinct = distinct (canonical state, event)")
EXPLANATION = ("direct exploration; reference = independent recomputation of "
               "each property from the live graph")
BOUNDS = {"quick": "depth 3 over ~50 events with dedup on (graph shape, "
                   "values, cache contents, notifier fingerprint)",
          "thorough": "depth 4"}
ASSUMPTIONS = ["Property(observe=...) only (legacy depends_on is a different "
               "mechanism and not in the statement)"]
MIN_OUTCOMES = {t: ["value-changed-notified", "cache-hit", "cache-refreshed",
                    "copy-pickle", "copy-deepcopy", "copy-clone"]
                for t in ("quick", "thorough")}
TIMEOUT = {"quick": 1200, "thorough": 7200}

PROPS = ["total", "total_u", "first", "own", "deep", "msum", "ssum", "cset",
         "bigkid", "tokname", "selval"]
CACHED = ["total", "first", "own", "deep", "msum", "ssum", "cset", "bigkid",
          "tokname", "selval"]


class Tok:
    """a value with a naive value-based __eq__ (raises AttributeError when
    compared with None or anything else that is not a Tok)"""

    def __init__(self, k):
        self.k = k

    def __eq__(self, other):
        return self.k == other.k

    def __hash__(self):
        return hash(self.k)

    def __repr__(self):
        return "Tok(%d)" % self.k


TOKS = [None, Tok(1), Tok(2)]


def _count(obj, name):
    c = obj.__dict__.setdefault("_getter_calls", {})
    c[name] = c.get(name, 0) + 1


class PNode(HasTraits):
    #: defined before every dependency (copy order follows definition order)
    trig0 = Int

    def _trig0_changed(self):
        self.total, self.deep, self.first, self.msum, self.ssum

    value = Int
    child = Instance(HasTraits)
    kids = List(Instance(HasTraits))
    kmap = Dict(Str, Instance(HasTraits))
    kset = Set(Instance(HasTraits))
    nid = Int(-1)
    #: plain traits whose static handlers read cached properties (also while
    #: an object's state is being copied, whatever the copy order)
    atrigger = Int
    ztrigger = Int

    def _atrigger_changed(self):
        self.total, self.deep, self.first

    def _ztrigger_changed(self):
        self.total, self.deep, self.first

    total = Property(Int, observe="kids.items.value")
    total_u = Property(Int, observe="kids.items.value")
    first = Property(Int, observe="child.value")
    own = Property(Int, observe="value")
    deep = Property(Int, observe="child.kids.items.value")
    msum = Property(Int, observe="kmap.items.value")
    ssum = Property(Int, observe="kset.items.value")
    #: cached AND settable (the setter writes through to the dependency)
    cset = Property(Int, observe="value")

    @cached_property
    def _get_cset(self):
        _count(self, "cset")
        return self.value + 100

    def _set_cset(self, v):
        self.value = v - 100

    #: "first match or None": the computed value is None most of the time
    bigkid = Property(Any, observe="kids.items.value")

    @cached_property
    def _get_bigkid(self):
        _count(self, "bigkid")
        for k in self.kids:
            if k.value > 1000:
                return k.value
        return None

    #: the observed path goes through another Property (whose value is
    #: never in the instance dictionary)
    sel = Property(Instance(HasTraits), observe="child")

    def _get_sel(self):
        return self.child

    selval = Property(Int, observe="sel.value")

    @cached_property
    def _get_selval(self):
        _count(self, "selval")
        return self.sel.value if self.sel is not None else -1

    #: depends on a trait whose values cannot be compared with == safely
    tok = Any
    tokname = Property(Int, observe="tok")

    @cached_property
    def _get_tokname(self):
        _count(self, "tokname")
        return 0 if self.tok is None else self.tok.k

    #: never given a named handler: only anytrait listeners hear about it
    alone = Property(Int, observe="value")

    def _get_alone(self):
        return self.value * 3

    @cached_property
    def _get_total(self):
        _count(self, "total")
        return sum(k.value for k in self.kids)

    def _get_total_u(self):
        _count(self, "total_u")
        return sum(k.value for k in self.kids)

    @cached_property
    def _get_first(self):
        _count(self, "first")
        return self.child.value if self.child is not None else -1

    @cached_property
    def _get_own(self):
        _count(self, "own")
        return self.value * 2

    @cached_property
    def _get_deep(self):
        _count(self, "deep")
        if self.child is None:
            return -1
        return sum(k.value for k in self.child.kids)

    @cached_property
    def _get_msum(self):
        _count(self, "msum")
        return sum(v.value for v in self.kmap.values())

    @cached_property
    def _get_ssum(self):
        _count(self, "ssum")
        return sum(v.value for v in self.kset)

    def __repr__(self):
        return "P%d" % self.nid


class PSub(PNode):
    """overrides a plain inherited getter by a cached one"""

    @cached_property
    def _get_total_u(self):
        _count(self, "total_u")
        return sum(k.value for k in self.kids)

    #: ... and a cached getter by a cached one that builds on the inherited
    #: (cached) computation
    @cached_property
    def _get_own(self):
        return super()._get_own() + 1000


def recompute(o, name):
    d = o.__dict__
    kids = d.get("kids", ())
    child = d.get("child")
    if name in ("total", "total_u"):
        return sum(k.value for k in kids)
    if name in ("first", "selval"):
        return child.value if child is not None else -1
    if name == "own":
        return o.value * 2 + (1000 if isinstance(o, PSub) else 0)
    if name == "cset":
        return o.value + 100
    if name == "deep":
        if child is None:
            return -1
        return sum(k.value for k in child.__dict__.get("kids", ()))
    if name == "bigkid":
        for k in kids:
            if k.value > 1000:
                return k.value
        return None
    if name == "tokname":
        t = d.get("tok")
        return 0 if t is None else t.k
    if name == "msum":
        return sum(v.value for v in d.get("kmap", {}).values())
    if name == "ssum":
        return sum(v.value for v in d.get("kset", ()))


class World:
    def __init__(self):
        self.pool = [PSub(), PNode(), PNode()]
        for i, n in enumerate(self.pool):
            n.nid = i
            n.value = i + 1
        self.copied = None
        self.hook()

    def hook(self):
        self.otc = {p: [] for p in PROPS}
        self.obs = {p: [] for p in PROPS}
        root = self.pool[0]
        def mk_otc(log):
            def h(new):
                log.append(new)
            return h

        def mk_obs(log):
            def h(ev):
                log.append(ev.new)
            return h
        for p in PROPS:
            root.on_trait_change(mk_otc(self.otc[p]), p)
            root.observe(mk_obs(self.obs[p]), p)
        self.any_log = []
        any_log = self.any_log

        def h_any(obj, name, old, new):
            if name == "alone":
                any_log.append(new)
        self.h_any = h_any
        root.on_trait_change(h_any)

    def clear(self):
        self.any_log.clear()
        for p in PROPS:
            self.otc[p].clear()
            self.obs[p].clear()


def menu():
    evs = G.event_menu(["child", "kids"], idx=(0, 1))
    evs += G.event_menu(["kmap", "kset"], idx=(0,))
    evs += [("set_value", i) for i in range(3)]
    evs += [("set_trigger", i) for i in range(2)]
    evs += [("set_cset", i) for i in range(2)]
    evs += [("set_tok", 0, j) for j in range(3)]
    evs += [("read_all",), ("read_all_root",)]
    evs += [("copy", how) for how in ("pickle", "deepcopy", "clone")]
    return evs


def enabled(w, ev):
    if ev[0] in ("set_value", "read_all", "read_all_root", "set_trigger",
                 "set_cset"):
        return True
    if ev[0] == "set_tok":
        return w.pool[ev[1]].__dict__.get("tok") is not TOKS[ev[2]] and not \
            w.copied
    if ev[0] == "copy":
        return w.copied is None
    return G.enabled(w.pool, ev)


def apply(w, ev):
    k = ev[0]
    if k == "set_value":
        w.pool[ev[1]].value += 10
    elif k == "set_tok":
        w.pool[ev[1]].tok = TOKS[ev[2]]
    elif k == "set_cset":
        w.pool[ev[1]].cset = w.pool[ev[1]].value + 100 + 7
    elif k == "set_trigger":
        w.pool[ev[1]].trig0 += 1
        w.pool[ev[1]].atrigger += 1
        w.pool[ev[1]].ztrigger += 1
    elif k == "read_all":
        for o in w.pool:
            for p in PROPS:
                getattr(o, p)
    elif k == "read_all_root":
        for p in PROPS:
            getattr(w.pool[0], p)
    elif k == "copy":
        how = ev[1]
        if how == "pickle":
            w.pool = pickle.loads(pickle.dumps(w.pool, 2))
        elif how == "deepcopy":
            w.pool = copy.deepcopy(w.pool)
        else:
            w.pool = [w.pool[0].clone_traits(copy="shallow")] + w.pool[1:]
        w.copied = how
        w.hook()
    else:
        G.prepare(w.pool, ev)
        G.apply(w.pool, ev)


def final_check(ctx, w, hist, changed_props):
    good = True

    def bad(kind, msg):
        nonlocal good
        good = False
        ctx.violation("C12:%s:%s" % (kind, w.copied or "orig"), msg,
                      history=hist)
    for o in w.pool:
        for p in PROPS:
            want = recompute(o, p)
            calls = o.__dict__.setdefault("_getter_calls", {})
            c0 = calls.get(p, 0)
            ctx.tr()
            got = getattr(o, p)
            c1 = calls.get(p, 0)
            got2 = getattr(o, p)
            c2 = calls.get(p, 0)
            if got != want:
                bad("stale:%s" % p, "%r.%s reads %r, recomputation gives %r"
                    % (o, p, got, want))
            if got2 != want:
                bad("stale2:%s" % p, "second read of %r.%s gives %r, "
                    "recomputation %r" % (o, p, got2, want))
            if p in CACHED or (p == "total_u" and isinstance(o, PSub)):
                if c2 - c1 != 0:
                    bad("cache-miss:%s" % p, "cached getter of %r.%s ran "
                        "again on an immediate second read" % (o, p))
                elif c1 == c0:
                    ctx.outcome("cache-hit")
                else:
                    ctx.outcome("cache-refreshed")
                if c1 - c0 > 1:
                    bad("getter-twice:%s" % p, "getter ran %d times for one "
                        "read" % (c1 - c0))
    return good


def run_history(ctx, hist):
    w = World()
    good = True
    for i, ev in enumerate(hist):
        if not enabled(w, ev):
            return None, None
        last = i == len(hist) - 1
        if last:
            root = w.pool[0]
            before = {p: recompute(root, p) for p in PROPS}
            w.clear()
        try:
            apply(w, ev)
        except Exception as exc:
            ctx.violation("C12:event-raises:%s" % ev[0], "event raised %r"
                          % (exc,), history=hist)
            return False, None
        if last and ev[0] == "set_value" and ev[1] == 0:
            want = w.pool[0].value * 3
            ctx.tr()
            if not w.any_log or w.any_log[-1] != want:
                good = False
                ctx.violation(
                    "C12:not-announced:alone:anytrait:%s" % (w.copied
                                                             or "orig"),
                    "a property whose only listener is an anytrait handler "
                    "changed to %r but the handler got %r" % (want,
                                                              w.any_log),
                    history=hist)
        if last and ev[0] != "copy":
            root = w.pool[0]
            after = {p: recompute(root, p) for p in PROPS}
            for p in PROPS:
                if before[p] != after[p]:
                    ctx.nontriv((ev, p, G.shape(w.pool)))
                    for mech, log in (("on_trait_change", w.otc[p]),
                                      ("observe", w.obs[p])):
                        if not log:
                            good = False
                            ctx.violation(
                                "C12:not-announced:%s:%s:%s" % (
                                    p, mech, w.copied or "orig"),
                                "%s changed %s from %r to %r but the %s "
                                "handler was not called" % (
                                    ev, p, before[p], after[p], mech),
                                history=hist)
                        elif log[-1] != after[p]:
                            good = False
                            ctx.violation(
                                "C12:announced-wrong:%s:%s:%s" % (
                                    p, mech, w.copied or "orig"),
                                "%s handler got new=%r, recomputation %r"
                                % (mech, log[-1], after[p]), history=hist)
                        else:
                            ctx.outcome("value-changed-notified")
        if last and ev[0] == "copy":
            ctx.outcome("copy-" + ev[1])
    # canonical key BEFORE the final reads (they fill the caches)
    caches = [sorted(k for k in o.__dict__ if k.startswith("_traits_cache"))
              for o in w.pool]
    key = (G.shape(w.pool)[:3], [o.value for o in w.pool],
           repr(w.pool[0].__dict__.get("tok")), caches,
           G.fingerprint(w.pool), w.copied)
    ok = final_check(ctx, w, hist, None)
    return good and ok, key


def shards(tier):
    n = len(menu())
    return [{"first": i} for i in range(n)]


def run_shard(ctx, shard, tier):
    evs = menu()
    depth = 3 if tier == "quick" else 4
    frontier = [[]]
    n_exec = 0
    for d in range(1, depth + 1):
        nxt = []
        for hist in frontier:
            for ev in ([evs[shard["first"]]] if d == 1 else evs):
                h2 = hist + [ev]
                ctx.case({"history": h2})
                ok, key = run_history(ctx, h2)
                if ok is None:
                    continue
                ctx.ev()
                n_exec += 1
                if n_exec % 500 == 0:
                    gc.collect()
                if ok and ctx.state(key):
                    nxt.append(h2)
        frontier = nxt
    ctx.depth_completed = depth
    ctx.sample({"history": frontier[0] if frontier else [evs[shard["first"]]]})


def replay(rec):
    from mc.ctx import Ctx
    ctx = Ctx("C12", None, "quick", 0)
    c = rec.get("case") or rec
    hist = [tuple(e) for e in c["history"]]
    run_history(ctx, hist)
    print("history", hist)
    for v in ctx.violations.values():
        print("  violation:", v["sig"], v["msg"])
    return not ctx.violations
