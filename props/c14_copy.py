"""C14 — pickling, deep copying and cloning preserve state and keep traits live.

Part A: object copies from every state reached by short histories.
Part B: trait definition objects (CTrait) of every kind, round-tripped and
compared differentially with the original (installed through add_trait).
"""
import copy
import gc
import pickle
import warnings

from traits.api import (Any, ComparisonMode, Constant, DelegatesTo, Dict,
                        Event, HasTraits, Instance, Int, List, Map,
                        Property, PrototypedFrom, ReadOnly, Set, Str,
                        TraitError, UUID, cached_property, observe)

from props import lattice as L
from props.c01_domain import owner_class

LEVEL = "model_checking"
RULE = ("part A: every history up to the depth bound over ~30 assignment / "
        "container-mutation events on an object with nested containers, an "
        "Instance graph with sharing, transient / ReadOnly / Map / observed "
        "Property / @observe / static items handler traits, then each of 10 "
        "copy operations, then a fixed liveness suite on the copy; part B: "
        "every trait-definition kind x {pickle 0..5, copy, deepcopy} x a "
        "get/set/del script over a value sub-lattice, compared with the "
        "original definition; non-trivial = (state, copy op) with a "
        "non-default state, or a definition kind whose script accepts and "
        "rejects values; distinct = distinct (state, copy op) / (kind, op)")
EXPLANATION = ("direct exploration; reference = the original object / "
               "definition itself (differential), plus validity predicates "
               "for the liveness suite")
BOUNDS = {"quick": "part A depth 3; part B all kinds of the shared grid "
                   "(singles) + Property/Delegate/Event/Constant/ReadOnly",
          "thorough": "part A depth 4"}
ASSUMPTIONS = ["user subclasses overriding __getstate__ and pre-3.0 pickle "
               "formats are out of scope"]
MIN_OUTCOMES = {t: ["copy-checked", "liveness-checked", "ctrait-roundtrip",
                    "readonly-stays-written", "transient-reset"]
                for t in ("quick", "thorough")}
TIMEOUT = {"quick": 1200, "thorough": 7200}

CALLS = {}      # id(obj) -> {"static": n, "observe": n}


def _bump(obj, what):
    d = CALLS.setdefault(id(obj), {"static": 0, "observe": 0,
                                   "post_init": 0})
    d[what] += 1


class Node14(HasTraits):
    value = Int
    tags = List(Str)


import itertools as _it  # noqa: E402

_SERIAL = _it.count(1000)


class Holder14(HasTraits):
    dnode = Instance(Node14, ())
    dnodes = List(Instance(Node14))


class Owner14(HasTraits):
    #: prototyped from object-valued traits of another object: a local
    #: override is this object's own (mutable) state
    holder = Instance(Holder14, ())
    dnode = PrototypedFrom("holder")
    dnodes = PrototypedFrom("holder")
    #: prototyped from zholder.value and declared BEFORE the trait holding
    #: its prototype (copying goes by declaration order)
    aproto = PrototypedFrom("zholder", prefix="value")
    xs = List(Int)
    #: a list that may never be empty
    ml = List(Int, [7], minlen=1)
    nested = List(List(Int))
    dl = Dict(Str, List(Int))
    st = Set(Int)
    node = Instance(Node14)
    node2 = Instance(Node14)
    tr = Int(transient=True)
    ro = ReadOnly
    mp = Map({"a": 1, "b": 2})
    refl = List(Int, copy="ref")
    shn = Instance(Node14, copy="shallow")
    dpn = Instance(Node14, copy="deep")
    nodes = List(Instance(Node14))
    kd = Dict(Instance(Node14), Int, copy="deep")
    uid = UUID(can_init=True)
    #: prototyped from node.value; a local override must survive copying
    pval = PrototypedFrom("node", prefix="value")
    zholder = Instance(Node14)
    total = Property(Int, observe="xs.items")
    #: a default that is not reproducible (a fresh number per computation)
    #: and that nobody reads before the object is copied
    serial = Int

    def _serial_default(self):
        return next(_SERIAL)

    @cached_property
    def _get_total(self):
        return sum(self.xs)

    def _xs_items_changed(self, event):
        _bump(self, "static")

    @observe("xs.items")
    def _xs_observed(self, event):
        _bump(self, "observe")

    @observe("st.items", post_init=True)
    def _st_observed(self, event):
        _bump(self, "post_init")


class WithDefaultRO(HasTraits):
    ro2 = ReadOnly(5)


class WithUUID(HasTraits):
    u = UUID


NAMES = ["xs", "nested", "dl", "st", "node", "node2", "ro", "mp", "refl",
         "shn", "dpn", "nodes", "kd", "uid", "ml", "zholder", "dnode",
         "dnodes"]

EVENTS = [
    ("xs_assign",), ("xs_append",), ("xs_pop",),
    ("nested_assign",), ("nested_inner_append",), ("nested_append",),
    ("dl_set",), ("dl_inner_append",), ("dl_del",),
    ("st_add",), ("st_discard",),
    ("node_new",), ("node_value",), ("node_share",), ("node_tags",),
    ("tr_set",), ("ro_set",), ("mp_set",), ("refl_set",), ("shn_set",),
    ("dpn_set",), ("nodes_append",), ("nodes_share",), ("read_total",),
    ("kd_set_new",), ("kd_set_node",), ("pval_set",), ("aproto_set",),
    ("ml_set",), ("dnode_set",), ("dnodes_set",),
]


def enabled(o, ev):
    k = ev[0]
    d = o.__dict__
    if k == "xs_pop":
        return len(d.get("xs", ())) > 0
    if k == "nested_inner_append":
        return len(d.get("nested", ())) > 0
    if k == "dl_inner_append":
        return "k" in d.get("dl", {})
    if k == "dl_del":
        return "k" in d.get("dl", {})
    if k == "st_discard":
        return 1 in d.get("st", ())
    if k in ("node_value", "node_share", "node_tags", "nodes_share",
             "kd_set_node", "pval_set"):
        return d.get("node") is not None
    if k == "ro_set":
        from traits.api import Undefined
        return d.get("ro", Undefined) is Undefined
    return True


def apply(o, ev):
    k = ev[0]
    if k == "xs_assign":
        o.xs = [1, 2]
    elif k == "xs_append":
        o.xs.append(3)
    elif k == "xs_pop":
        o.xs.pop()
    elif k == "nested_assign":
        o.nested = [[1], [2, 3]]
    elif k == "nested_inner_append":
        o.nested[0].append(5)
    elif k == "nested_append":
        o.nested.append([7])
    elif k == "dl_set":
        o.dl["k"] = [1]
    elif k == "dl_inner_append":
        o.dl["k"].append(2)
    elif k == "dl_del":
        del o.dl["k"]
    elif k == "st_add":
        o.st.add(1)
    elif k == "st_discard":
        o.st.discard(1)
    elif k == "node_new":
        o.node = Node14(value=3)
    elif k == "node_value":
        o.node.value += 1
    elif k == "node_share":
        o.node2 = o.node
    elif k == "node_tags":
        o.node.tags.append("t")
    elif k == "tr_set":
        o.tr = 5
    elif k == "ro_set":
        o.ro = 7
    elif k == "mp_set":
        o.mp = "b"
    elif k == "refl_set":
        o.refl = [3]
    elif k == "shn_set":
        o.shn = Node14(value=4)
    elif k == "dpn_set":
        o.dpn = Node14(value=5)
    elif k == "nodes_append":
        o.nodes.append(Node14(value=6))
    elif k == "nodes_share":
        o.nodes.append(o.node)
    elif k == "read_total":
        o.total
    elif k == "pval_set":
        o.pval = 42
    elif k == "aproto_set":
        if o.zholder is None:
            o.zholder = Node14(value=3)
        o.aproto = 55
    elif k == "ml_set":
        o.ml = [1, 2]
    elif k == "dnode_set":
        o.dnode = Node14(value=9, tags=["d"])
    elif k == "dnodes_set":
        o.dnodes = [Node14(value=10), Node14(value=11)]
    elif k == "kd_set_new":
        o.kd[Node14(value=8)] = 1
    elif k == "kd_set_node":
        o.kd[o.node] = 2


COPIES = ["pickle%d" % p for p in range(6)] + \
    ["deepcopy", "clone", "clone_deep", "clone_shallow"]


def do_copy(o, how):
    if how.startswith("pickle"):
        return pickle.loads(pickle.dumps(o, int(how[-1])))
    if how == "deepcopy":
        return copy.deepcopy(o)
    if how == "clone":
        return o.clone_traits()
    if how == "clone_deep":
        return o.clone_traits(copy="deep")
    if how == "clone_shallow":
        return o.clone_traits(copy="shallow")


def plain(v):
    if isinstance(v, Node14):
        return ("Node14", v.value, list(v.tags))
    if isinstance(v, (list, tuple)):
        return [plain(x) for x in v]
    if isinstance(v, dict):
        return sorted(((plain(k), plain(x)) for k, x in v.items()), key=repr)
    if isinstance(v, (set, frozenset)):
        return sorted(v)
    return v


def state_of(o):
    from traits.api import Undefined
    ro = o.ro
    return {n: plain(getattr(o, n)) for n in NAMES if n != "ro"} | \
        {"ro": "<unset>" if ro is Undefined else plain(ro), "mp_": o.mp_,
         "total": o.total,
         "pval": o.pval if o.node is not None else "<no prototype>",
         "aproto": o.aproto if o.zholder is not None else "<no prototype>"}


def containers(o):
    out = {}

    def walk(v, where):
        if isinstance(v, (list, dict, set, Node14)):
            out[id(v)] = where
        if isinstance(v, (list, tuple)):
            for x in v:
                walk(x, where)
        elif isinstance(v, dict):
            for kk, x in v.items():
                walk(kk, where + "(key)")
                walk(x, where)
        elif isinstance(v, Node14):
            walk(v.__dict__.get("tags"), where + ".tags")
    for n in NAMES:
        if n in o.__dict__:
            walk(o.__dict__[n], n)
    return out


def check_copy(ctx, o, how, hist):
    good = True

    def bad(kind, msg):
        nonlocal good
        if not ctx.violation("C14:%s:%s" % (kind, how.rstrip("012345")), msg,
                             history=hist, copy=how):
            good = False
    ctx.tr()
    before = state_of(o)
    o_tr = o.tr
    try:
        d = do_copy(o, how)
    except Exception as e:
        bad("copy-raises", "%s raised %r" % (how, e))
        return good
    ctx.outcome("copy-checked")
    if type(d) is not type(o):
        bad("class", "copy is a %s" % type(d).__name__)
        return good
    after = state_of(d)
    if after != before:
        diff = sorted(k for k in before if before[k] != after.get(k))
        bad("state:%s" % ",".join(diff), "copy differs from the original in "
            "%s: %r vs %r" % (diff, {k: after[k] for k in diff},
                              {k: before[k] for k in diff}))
    if d.serial != o.serial:
        bad("unread-default", "a trait nobody had read before the copy "
            "(its default is computed once per object) reads %r on the "
            "original and %r on the copy" % (o.serial, d.serial))
    if o_tr != 0:
        ctx.outcome("transient-reset")
    if d.tr != 0:
        bad("transient", "transient trait is %r on the copy, default is 0"
            % d.tr)
    shared = set(containers(o)) & set(containers(d))
    if shared:
        where = sorted({containers(o)[i] for i in shared})
        bad("shared:%s" % ",".join(where), "the copy shares mutable "
            "container(s) with the original: %s" % where)
    # ---- liveness of the copy
    ctx.outcome("liveness-checked")

    def must_reject(label, f):
        try:
            f()
        except TraitError:
            return
        except Exception as e:
            bad("liveness-raises:%s" % label, "%s raised %r" % (label, e))
            return
        bad("not-validating:%s" % label, "the copy accepted an invalid "
            "value: %s" % label)
    must_reject("xs.append", lambda: d.xs.append("bad"))
    must_reject("xs=", lambda: setattr(d, "xs", "bad"))
    must_reject("nested.append", lambda: d.nested.append(["bad"]))
    if len(d.nested):
        must_reject("nested[0].append", lambda: d.nested[0].append("bad"))
    must_reject("dl[z]=", lambda: d.dl.__setitem__("z", "bad"))
    for k in list(d.dl):
        must_reject("dl[k].append", lambda k=k: d.dl[k].append("bad"))
    must_reject("st.add", lambda: d.st.add("bad"))
    must_reject("nodes.append", lambda: d.nodes.append(5))
    must_reject("refl.append", lambda: d.refl.append("bad"))
    must_reject("dnodes.append", lambda: d.dnodes.append(5))
    must_reject("dnode.tags.append", lambda: d.dnode.tags.append(5))
    must_reject("mp=", lambda: setattr(d, "mp", "zzz"))
    if d.node is not None:
        must_reject("node.tags.append", lambda: d.node.tags.append(5))
    if before["ro"] != "<unset>":
        ctx.outcome("readonly-stays-written")
        must_reject("ro=", lambda: setattr(d, "ro", 8))
    import uuid
    must_reject("uid=", lambda: setattr(d, "uid", uuid.uuid4()))
    if d.traits_inited() != o.traits_inited():
        bad("not-inited", "traits_inited() is %r on the copy, %r on the "
            "original" % (d.traits_inited(), o.traits_inited()))
    for kk in list(d.kd):
        if all(kk is not x for x in d.kd.keys()) or kk not in d.kd:
            bad("dict-keys", "the copy's dict is not keyed by its own keys")
    CALLS.pop(id(d), None)
    CALLS.pop(id(o), None)
    try:
        d.xs.append(4)
        got = CALLS.get(id(d), {"static": 0, "observe": 0})
        if got["static"] != 1:
            bad("items-handler", "the copy's _xs_items_changed was called %d "
                "times for one append" % got["static"])
        if got["observe"] != 1:
            bad("observe-method", "the copy's @observe method was called %d "
                "times for one append" % got["observe"])
        if CALLS.get(id(o)):
            bad("original-notified", "mutating the copy notified the "
                "original's handlers")
        if d.total != sum(d.xs):
            bad("property-stale", "the copy's observed property reads %r, "
                "sum is %r" % (d.total, sum(d.xs)))
        d.mp = "a"
        if d.mp_ != 1:
            bad("shadow", "the copy's mapped shadow value is %r" % d.mp_)
        CALLS.pop(id(d), None)
        CALLS.pop(id(o), None)
        d.st.add(977)
        got = CALLS.get(id(d), {}).get("post_init", 0)
        if got != 1:
            bad("post-init-observer", "the copy's @observe(post_init=True) "
                "method was called %d times for one change" % got)
        if CALLS.get(id(o)):
            bad("original-notified", "mutating the copy notified the "
                "original's post-init observer")
        if how.startswith("pickle") and "pval" not in o.__dict__ and \
                d.node is not None:
            # an attribute that followed its prototype keeps following it
            d.node.value += 50
            if d.pval != d.node.value:
                bad("prototype-link-lost", "after unpickling, pval no longer "
                    "follows its prototype (%r vs %r)" % (d.pval,
                                                          d.node.value))
    except Exception as e:
        bad("liveness-raises", "valid operations on the copy raised %r" % (e,))
    if state_of(o) != before:
        bad("original-changed", "operating on the copy changed the original")
    # the original's own post-init observer is still registered exactly once
    CALLS.pop(id(o), None)
    try:
        o.st.add(978)
        got = CALLS.get(id(o), {}).get("post_init", 0)
        if got != 1:
            bad("original-post-init-observer", "after %s the original's "
                "@observe(post_init=True) method is called %d times per "
                "change" % (how, got))
        o.st.discard(978)
    except Exception as e:
        bad("original-raises", "the original raised %r" % (e,))
    # a copy of the (already used) copy, by a different mechanism
    if how in ("pickle2", "deepcopy", "clone"):
        how2 = {"pickle2": "deepcopy", "deepcopy": "clone",
                "clone": "pickle2"}[how]
        try:
            st = state_of(d)
            d2 = do_copy(d, how2)
            if state_of(d2) != st:
                bad("copy-of-copy", "%s of the %s differs from it" % (how2,
                                                                      how))
            CALLS.pop(id(d2), None)
            d2.xs.append(6)
            got = CALLS.get(id(d2), {"static": 0, "observe": 0})
            if got["static"] != 1 or got["observe"] != 1:
                bad("copy-of-copy-handlers", "handlers of the %s of the %s "
                    "were called %r for one append" % (how2, how, got))
            try:
                d2.xs.append("bad")
                bad("copy-of-copy-not-validating", "accepted an invalid item")
            except TraitError:
                pass
            if d2.total != sum(d2.xs):
                bad("copy-of-copy-property", "property stale")
            if list(d.xs) == list(d2.xs):
                bad("copy-of-copy-shared", "the copies share their list")
        except Exception as e:
            bad("copy-of-copy-raises", "%s of the %s raised %r" % (how2, how,
                                                                   e))
    return good


def run_history(ctx, hist):
    o = Owner14()
    for ev in hist:
        if not enabled(o, ev):
            return None, None
        apply(o, ev)
    key = repr(sorted(state_of(o).items())) + repr(
        o.node2 is o.node and o.node is not None) + repr(o.tr)
    ok = True
    for how in COPIES:
        ctx.case({"part": "A", "history": hist, "copy": how})
        ctx.ev()
        o2 = Owner14()
        for ev in hist:
            apply(o2, ev)
        if not check_copy(ctx, o2, how, hist):
            ok = False
        if hist:
            ctx.nontriv((key, how))
    return ok, key


# ----------------------------------------------------------------- part B
def _pget(self):
    return self.__dict__.get("_pv", 0)


def _pset(self, value):
    self.__dict__["_pv"] = value


class Defs(HasTraits):
    parent = Instance(Node14, ())
    p_plain = Property(_pget, _pset)
    p_valid = Property(_pget, _pset, trait=Int)
    p_ro = Property(_pget)
    dlg = DelegatesTo("parent", prefix="value")
    ev = Event
    evi = Event(Int)
    k = Constant(3)
    ro = ReadOnly
    ro5 = ReadOnly(5)
    an = Any
    an_none = Any(comparison_mode=ComparisonMode.none)
    an_ident = Any(comparison_mode=ComparisonMode.identity)
    uu = UUID


SPECIAL = ["p_plain", "p_valid", "p_ro", "dlg", "ev", "evi", "k", "ro",
           "ro5", "an", "an_none", "an_ident"]
ROUND = ["pickle%d" % p for p in range(6)] + ["copy", "deepcopy"]
SCRIPT_VALUES = ["i1", "i2", "sa", "None", "f1.5", "True", "t(1,a)", "l[1]",
                 "A0", "fnan", "i3", "sab", "f0.5", "fn", "clsB", "C0",
                 "FOO0"]


def grid_kinds():
    seen, out = set(), []
    for name in L.NAMES:
        c = L.CONFIGS[name]
        if name in L.COMPOUND_MEMBERS and c.kind in ("Either2", "Union2"):
            if c.kind in seen:
                continue
        if c.kind in seen and c.kind not in ("Range", "String", "Enum",
                                             "Tuple", "Instance",
                                             "Instance-adapt"):
            continue
        if c.kind in ("Array", "CArray", "ArrayOrNone", "Range-dynamic"):
            if c.kind in seen:
                continue
        if sum(1 for k in out if L.CONFIGS[k].kind == c.kind) >= 4:
            continue
        seen.add(c.kind)
        out.append(name)
    return out


class Host(HasTraits):
    parent = Instance(Node14, ())


def script(ct):
    """Install the definition under 'x' on a fresh host and run a fixed
    get/set/del script; returns the outcome trace."""
    h = Host()
    trace = []

    def rec(f):
        try:
            r = f()
            trace.append(("ok", type(r).__name__, repr(r)[:60]
                          if not isinstance(r, HasTraits) and
                          "object at" not in repr(r) else "obj"))
        except TraitError:
            trace.append(("TraitError",))
        except AttributeError:
            trace.append(("AttributeError",))
        except Exception as e:
            trace.append(("exc", type(e).__name__))
    rec(lambda: h.add_trait("x", ct))
    calls = []
    h.on_trait_change(lambda: calls.append(1), "x")
    rec(lambda: h.x)
    for lbl in SCRIPT_VALUES:
        v = L.value(lbl)
        rec(lambda: setattr(h, "x", v))
        rec(lambda: h.x)
        rec(lambda: h.x_)           # the shadow value, where there is one
    rec(lambda: delattr(h, "x"))
    rec(lambda: h.x)
    rec(lambda: setattr(h, "x", 1))
    rec(lambda: setattr(h, "x", 2))
    n0 = len(calls)
    same = [2]
    rec(lambda: setattr(h, "x", same))     # an unequal value,
    rec(lambda: setattr(h, "x", same))     # the identical object again,
    rec(lambda: setattr(h, "x", [2]))      # an equal but distinct one
    trace.append(("notifications", len(calls) - n0))
    rec(lambda: h.x)
    rec(lambda: h.parent.value)
    trace.append(("notifications-total", len(calls)))
    # the definition as the introspection and copy machinery sees it
    rec(lambda: h.base_trait("x") is not None)
    rec(lambda: h.validate_trait("x", 1))
    rec(lambda: h.validate_trait("x", "sa"))
    rec(lambda: h.trait("x").is_trait_type(type(ct.handler))
        if ct.handler is not None else None)

    def cloned():
        c = h.clone_traits()
        return ("x" in c._instance_traits(), "x" in c.__dict__,
                repr(c.__dict__.get("x"))[:40])
    rec(cloned)
    return trace


def part_b(ctx, kind_name, special):
    if special:
        ct = Defs.class_traits()[kind_name]
        sigk = kind_name
    else:
        ct = owner_class(kind_name).class_traits()["x"]
        sigk = L.CONFIGS[kind_name].kind
    with warnings.catch_warnings():
        warnings.simplefilter("ignore")
        base = script(ct)
    accepts = sum(1 for t in base if t[0] == "ok")
    for how in ROUND:
        ctx.case({"part": "B", "kind": kind_name, "special": special,
                  "round": how})
        ctx.ev()
        ctx.tr()
        try:
            if how.startswith("pickle"):
                ct2 = pickle.loads(pickle.dumps(ct, int(how[-1])))
            elif how == "copy":
                ct2 = copy.copy(ct)
            else:
                ct2 = copy.deepcopy(ct)
        except Exception as e:
            ctx.violation("C14:ctrait-roundtrip-raises:%s:%s" % (
                sigk, how.rstrip("012345")),
                "%s of the %s trait definition raised %s: %s" % (
                    how, kind_name, type(e).__name__, str(e)[:120]),
                kind=kind_name, round=how)
            continue
        ctx.outcome("ctrait-roundtrip")
        with warnings.catch_warnings():
            warnings.simplefilter("ignore")
            got = script(ct2)
        if got != base:
            i = next(i for i, (a, b) in enumerate(zip(base, got)) if a != b)
            ctx.violation("C14:ctrait-behaviour:%s:%s" % (
                sigk, how.rstrip("012345")),
                "round-tripped %s definition behaves differently at script "
                "step %d: %r, original %r" % (kind_name, i, got[i], base[i]),
                kind=kind_name, round=how)
        try:
            dv1, dv2 = ct.default_value(), ct2.default_value()
            if dv1[0] != dv2[0] or repr(dv1[1])[:80] != repr(dv2[1])[:80]:
                if "object at" not in repr(dv1[1]):
                    ctx.violation("C14:ctrait-default:%s" % sigk,
                                  "default %r became %r" % (dv1, dv2),
                                  kind=kind_name, round=how)
        except Exception:
            pass
        md1 = {k: repr(v)[:60] for k, v in (ct.__dict__ or {}).items()
               if "object at" not in repr(v)}
        md2 = {k: repr(v)[:60] for k, v in (ct2.__dict__ or {}).items()
               if "object at" not in repr(v)}
        if md1 != md2:
            ctx.violation("C14:ctrait-metadata:%s" % sigk,
                          "metadata changed: %r" % sorted(
                              set(md1.items()) ^ set(md2.items()))[:4],
                          kind=kind_name, round=how)
        if accepts > 2:
            ctx.nontriv((kind_name, how))


def one_off(ctx):
    """objects of classes the main owner avoids"""
    for cls, label in ((WithDefaultRO, "readonly-default"),
                       (WithUUID, "uuid")):
        for how in ("pickle2", "deepcopy", "clone"):
            ctx.case({"part": "A1", "class": label, "copy": how})
            ctx.ev()
            ctx.tr()
            o = cls()
            try:
                d = do_copy(o, how)
            except Exception as e:
                ctx.violation("C14:copy-raises:%s:%s" % (
                    label, how.rstrip("012345")),
                    "%s of a %s instance raised %r" % (how, cls.__name__, e))
                continue
            if type(d) is not cls:
                ctx.violation("C14:class:%s" % label, "wrong class")


class Team14(HasTraits):
    """an object that is a member of a set (list, dict value) and also the
    value of another trait: one object in the copy as well"""
    chair = Instance(Node14)
    members = Set(Instance(Node14))
    roster = List(Instance(Node14))
    by_name = Dict(Str, Instance(Node14))


class Snap14(HasTraits):
    """takes a clone of itself from a handler that a constructor keyword
    fires (the object is not fully constructed yet)"""
    x = Int
    uid = UUID(can_init=True)
    snaps = Any

    def _x_changed(self):
        if self.snaps is None:
            self.snaps = []
        self.snaps.append(self.clone_traits())


def identity_cells(ctx):
    for how in COPIES:
        ctx.case({"part": "A2", "cell": "shared-member", "copy": how})
        ctx.ev()
        ctx.tr()
        n = Node14(value=4, tags=["t"])
        t = Team14(chair=n, members={n, Node14(value=5)}, roster=[n],
                   by_name={"n": n})
        try:
            d = do_copy(t, how)
        except Exception as e:
            ctx.violation("C14:copy-raises:team:%s" % how.rstrip("012345"),
                          "%s raised %r" % (how, e), copy=how)
            continue
        if how == "clone_shallow":
            continue        # (shares by definition)
        for where, coll in (("set", d.members), ("list", d.roster)):
            if d.chair is n or any(x is n for x in coll):
                ctx.violation(
                    "C14:shared:team-%s:%s" % (where, how.rstrip("012345")),
                    "the copy shares a Node with the original", copy=how)
            elif not any(x is d.chair for x in coll):
                ctx.violation(
                    "C14:identity:%s:%s" % (where, how.rstrip("012345")),
                    "in the original one object is both `chair` and a member "
                    "of the %s; in the copy the %s holds a different (equal) "
                    "object" % (where, where), copy=how)
            else:
                ctx.outcome("copy-checked")
    # a clone taken while the source is still being constructed
    ctx.case({"part": "A2", "cell": "clone-during-construction"})
    ctx.ev()
    ctx.tr()
    import uuid
    s1 = Snap14(x=3)
    snap = s1.snaps[0]
    if not snap.traits_inited():
        ctx.violation("C14:not-inited:clone-during-construction",
                      "a clone taken from a handler fired by a constructor "
                      "keyword reports traits_inited() False for good")
    try:
        snap.uid = uuid.uuid4()
        ctx.violation("C14:not-validating:clone-during-construction",
                      "the write-once UUID of a clone taken during "
                      "construction could be overwritten")
    except TraitError:
        ctx.outcome("readonly-stays-written")


def shards(tier):
    out = [{"part": "A", "first": i} for i in range(len(EVENTS))]
    out.append({"part": "A0"})
    kinds = grid_kinds()
    for i in range(8):
        out.append({"part": "B", "chunk": i, "of": 8})
    out.append({"part": "Bs"})
    return out


def run_shard(ctx, shard, tier):
    if shard["part"] == "A0":
        run_history(ctx, [])
        one_off(ctx)
        identity_cells(ctx)
        ctx.depth_completed = 0
        return
    if shard["part"] == "A":
        depth = 3 if tier == "quick" else 4
        frontier = [[]]
        for d in range(1, depth + 1):
            nxt = []
            for hist in frontier:
                for ev in ([EVENTS[shard["first"]]] if d == 1 else EVENTS):
                    h2 = hist + [ev]
                    ok, key = run_history(ctx, h2)
                    if ok is None:
                        continue
                    if ok and ctx.state(key):
                        nxt.append(h2)
            frontier = nxt
            gc.collect()
        ctx.depth_completed = depth
        ctx.sample({"history": frontier[0] if frontier
                    else [EVENTS[shard["first"]]], "copy": "pickle2"})
        return
    if shard["part"] == "B":
        kinds = grid_kinds()[shard["chunk"]::shard["of"]]
        for k in kinds:
            ctx.state(("B", k))
            part_b(ctx, k, special=False)
        ctx.sample({"kind": kinds[0] if kinds else None, "round": "pickle2"})
    else:
        for k in SPECIAL:
            ctx.state(("Bs", k))
            part_b(ctx, k, special=True)
    ctx.depth_completed = 1


def replay(rec):
    from mc.ctx import Ctx
    ctx = Ctx("C14", None, "quick", 0)
    c = rec.get("case") or rec
    if c.get("part") == "A":
        global COPIES
        COPIES = [c["copy"]]
        run_history(ctx, [tuple(e) for e in c["history"]])
    elif c.get("part") == "B":
        global ROUND
        ROUND = [c["round"]]
        part_b(ctx, c["kind"], c["special"])
    elif c.get("part") == "A2":
        identity_cells(ctx)
    else:
        one_off(ctx)
    for v in ctx.violations.values():
        print("  violation:", v["sig"], v["msg"])
    return not ctx.violations
