"""C09 — observe registration is counted, reversible, failure-atomic and weak."""
import gc
import weakref

from traits.api import HasTraits, Instance, Int
from traits.observation.api import trait
from traits.observation.exceptions import NotifierNotFound

from props import graphs as G

LEVEL = "model_checking"
RULE = ("every history up to the depth bound over add/remove of (handler, "
        "expression, dispatch) registrations, graph mutations, failing "
        "registrations/removals and garbage-collection events; state = "
        "(registration counters, graph shape, notifier fingerprint, "
        "liveness); non-trivial = a step that changed counters, raised, or "
        "collected an object; distinct = distinct (state, event)")
EXPLANATION = ("direct exploration; reference = registration counters + "
               "reachability interpreter; failure atomicity via whole-pool "
               "notifier fingerprint equality")
BOUNDS = {"quick": "depth 3 over ~115 events with dedup (three node classes) + lifetime, anytrait, own-dispatcher and property-link cells",
          "thorough": "depth 4 with dedup"}
ASSUMPTIONS = ["main-thread dispatch (ui dispatch is immediate)",
               "pool of 3 objects, 2 handlers"]
MIN_OUTCOMES = {t: ["counted-call", "back-to-baseline", "NotifierNotFound",
                    "failed-registration-atomic", "owner-collected",
                    "object-collected", "failed-removal-atomic"]
                for t in ("quick", "thorough")}
TIMEOUT = {"quick": 1200, "thorough": 7200}

EXPRS = {
    "value": [G.P("value")],
    "child.value": [G.P("child.value")],
    "kids.items.value": [G.P("kids.items.value")],
    "kids:items:value": [G.P("kids:items:value")],
    # a prefix of another expression (their graphs overlap on the root's
    # link trait)
    "child": [G.P("child")],
}
# expressions that fail when some object met by the walk lacks `extra`
FAILING = {
    "child.extra": "child.extra",
    "child.child.extra": "child.child.extra",
    "kids.items.extra": "kids.items.extra",
    "kids:items:extra": "kids:items:extra",
    "[value,child.extra]": "[value,child.extra]",
    "[child.value,kids.items.extra]": "[child.value,kids.items.extra]",
    "list[value|child.extra]": ["value", "child.extra"],
    "value.list_items": lambda: trait("value").list_items(optional=False),
    "child.value.list_items": lambda: trait("child").trait(
        "value").list_items(optional=False),
    "kids.items.kids.items.extra": "kids.items.kids.items.extra",
}
REGS = [("f", e, d) for e in EXPRS for d in ("same", "ui")] + \
       [("m", e, "same") for e in EXPRS] + \
       [("f", "child.value", "same", 1), ("f", "value", "same", 1),
        ("m", "child.value", "same", 1)]     # registered on a second root
GRAPH_EVENTS = [("child", 0, 1), ("child", 0, None), ("child", 1, 2),
                ("kids_append", 0, 1), ("kids_append", 0, 2),
                ("kids_append", 1, 2), ("kids_pop", 0), ("add_trait", 1),
                ("add_trait", 2), ("del_child", 0)]


def event_menu():
    evs = []
    for r in REGS:
        evs.append(("add",) + r)
    for r in REGS:
        evs.append(("remove",) + r)
    evs += [("g",) + e for e in GRAPH_EVENTS]
    evs += [("fail_add", k) for k in FAILING]
    evs += [("fail_remove", k) for k in ("[value,child.value]",
                                         "list[value|kids.items.value]",
                                         "kids.items.value")]
    evs += [("gc_owner",), ("gc_o2",)]
    return evs


class Owner:
    def __init__(self):
        self.calls = []

    def m(self, event):
        self.calls.append((id(event.object), event.name))


class World:
    def __init__(self, eq=False):
        self.pool = G.make_pool(eq=eq)
        self.eq = eq
        self.fcalls = []
        fcalls = self.fcalls

        def f(event):
            fcalls.append((id(event.object), event.name))
        self.f = f
        self.owner = Owner()
        self.owner_ref = weakref.ref(self.owner)
        self.o2_ref = weakref.ref(self.pool[2])
        self.n = {}
        self.o2_gone = False

    def handler(self, h):
        return self.f if h == "f" else self.owner.m

    def live_pool(self):
        return [p for p in self.pool if p is not None]

    def fp(self):
        return G.fingerprint(G.all_objects(self.live_pool()))

    def observer_notifiers(self):
        tot = 0
        for ent in self.fp():
            for part in ent:
                items = part[1] if isinstance(part, tuple) else part
                for kind, rc in items:
                    if kind in ("TraitEventNotifier",
                                "ObserverChangeNotifier"):
                        tot += 1
        return tot


def o2_referenced(w):
    o2 = w.pool[2]
    for p in w.pool[:2]:
        d = p.__dict__
        if d.get("child") is o2 or d.get("lazy") is o2:
            return True
        if any(x is o2 for x in d.get("kids", ())):
            return True
        if any(x is o2 for x in d.get("kmap", {}).values()):
            return True
        if any(x is o2 for x in d.get("kset", ())):
            return True
    return False


def enabled(w, ev):
    k = ev[0]
    if k in ("add", "remove") and ev[1] == "m" and w.owner is None:
        return False
    if k in ("add", "remove") and len(ev) > 4 and w.pool[ev[4]] is None:
        return False
    if k == "g":
        e = ev[1:]
        if w.o2_gone and (2 in e[1:]):
            return False
        return G.enabled(w.pool, e) if not w.o2_gone or e[1] != 2 else False
    if k == "gc_owner":
        return w.owner is not None
    if k == "gc_o2":
        return not w.o2_gone and not o2_referenced(w)
    return True


def expr_of(key):
    e = FAILING.get(key, key)
    if key == "[value,child.value]":
        return "[value,child.value]"
    if key == "list[value|kids.items.value]":
        return ["value", "kids.items.value"]
    return e() if callable(e) else e


def step(ctx, w, ev, hist):
    k = ev[0]
    root = w.pool[0]
    good = True
    ctx.tr()

    def bad(kind, msg):
        nonlocal good
        good = False
        ctx.violation("C09:%s:%s" % (kind, ":".join(str(x) for x in ev[:3])),
                      msg, history=hist, eq=w.eq)
    if k in ("add", "remove"):
        h, e, d = ev[1:4]
        ri = ev[4] if len(ev) > 4 else 0
        root = w.pool[ri]
        rk = (h, e, d, ri)
    if k == "add":
        root.observe(w.handler(h), e, dispatch=d)
        w.n[rk] = w.n.get(rk, 0) + 1
        ctx.nontriv(("add", rk, w.n[rk]))
    elif k == "remove":
        before = w.fp()
        try:
            root.observe(w.handler(h), e, dispatch=d, remove=True)
            raised = None
        except NotifierNotFound as exc:
            raised = exc
        except Exception as exc:
            bad("remove-raises", "removal raised %r" % (exc,))
            return good
        cnt = w.n.get(rk, 0)
        if cnt == 0:
            ctx.outcome("NotifierNotFound")
            ctx.nontriv(("remove0", rk))
            if raised is None:
                bad("extra-removal-accepted", "removing a registration that "
                    "does not exist did not raise NotifierNotFound")
            if w.fp() != before:
                bad("failed-removal-changed", "failed removal changed the "
                    "notifier populations")
        else:
            if raised is not None:
                bad("removal-failed", "removal of an existing registration "
                    "(count %d) raised NotifierNotFound" % cnt)
            else:
                w.n[rk] = cnt - 1
                ctx.nontriv(("remove", rk, cnt))
    elif k == "g":
        try:
            G.prepare(w.pool, ev[1:])
            G.apply(w.pool, ev[1:])
        except Exception as exc:
            bad("mutation-raises", "graph mutation raised %r" % (exc,))
        w.fcalls.clear()
        if w.owner is not None:
            w.owner.calls.clear()
    elif k in ("fail_add", "fail_remove"):
        before = w.fp()
        expr = expr_of(ev[1])
        try:
            root.observe(w.f, expr, remove=(k == "fail_remove"))
            raised = None
        except Exception as exc:
            raised = exc
        after = w.fp()
        if raised is not None:
            ctx.outcome("failed-registration-atomic" if k == "fail_add"
                        else "failed-removal-atomic")
            ctx.nontriv((k, ev[1], G.shape(w.live_pool())))
            if after != before:
                bad("not-atomic", "%s of %r raised %s but the notifier "
                    "populations changed" % (
                        "registration" if k == "fail_add" else "removal",
                        ev[1], type(raised).__name__))
        else:
            # it succeeded in this graph: undo it so that the model stays
            # simple (and check that the undo is exact)
            try:
                root.observe(w.f, expr, remove=(k != "fail_remove"))
            except Exception as exc:
                bad("undo-raises", "reverting a successful %s raised %r"
                    % (k, exc))
            if w.fp() != before:
                bad("not-reversible", "add+remove of %r did not restore the "
                    "notifier populations" % (ev[1],))
    elif k == "gc_owner":
        w.owner = None
        gc.collect()
        if w.owner_ref() is not None:
            bad("owner-kept-alive", "the bound-method handler's owner is "
                "kept alive by registrations")
        ctx.outcome("owner-collected")
        ctx.nontriv(("gc_owner", sorted(w.n.items())))
        for key in list(w.n):
            if key[0] == "m":
                w.n[key] = 0
    elif k == "gc_o2":
        w.pool[2] = None
        w.o2_gone = True
        gc.collect()
        if w.o2_ref() is not None:
            bad("object-kept-alive", "an observed object is kept alive by "
                "registrations")
        ctx.outcome("object-collected")
        ctx.nontriv(("gc_o2", sorted(w.n.items())))
    return good


def probe(ctx, w, hist):
    good = True
    active = {k: v for k, v in w.n.items() if v > 0}
    if not active and w.owner is not None:
        # every registration removed: back to the baseline
        ctx.outcome("back-to-baseline")
        left = w.observer_notifiers()
        if left:
            good = False
            ctx.violation("C09:leftover-notifiers", "all registrations "
                          "removed but %d observer notifiers remain" % left,
                          history=hist)
    watches = {(e, ri): G.watch(w.pool[ri], EXPRS[e])
               for e in EXPRS for ri in (0, 1)}
    for o in G.all_objects(w.live_pool()):
        exp = {"f": set(), "m": set()}
        for (h, e, d, ri), cnt in active.items():
            if ("trait", id(o), "value") in watches[(e, ri)]:
                exp[h].add((d, ri))
        w.fcalls.clear()
        if w.owner is not None:
            w.owner.calls.clear()
        ctx.tr()
        try:
            o.value += 1
        except Exception as exc:
            good = False
            ctx.violation("C09:change-raises", "changing %r.value raised %r"
                          % (o, exc), history=hist)
            continue
        got_f = len(w.fcalls)
        got_m = len(w.owner.calls) if w.owner is not None else 0
        if got_f != len(exp["f"]) or got_m != len(exp["m"]):
            good = False
            ctx.violation(
                "C09:call-count", "changing %r.value: f called %d (expected "
                "%d), m called %d (expected %d); counters %r"
                % (o, got_f, len(exp["f"]), got_m, len(exp["m"]),
                   sorted(active.items())), history=hist)
        elif got_f or got_m:
            ctx.outcome("counted-call")
    return good


def run_history(ctx, hist, eq=False):
    w = World(eq=eq)
    for i, ev in enumerate(hist):
        if not enabled(w, ev):
            return None, None
        if i < len(hist) - 1:
            quiet(w, ev)
        else:
            if not step(ctx, w, ev, hist):
                return False, None
    ok = probe(ctx, w, hist)
    key = (eq, sorted((k, v) for k, v in w.n.items() if v),
           G.shape(w.live_pool()), w.fp(), w.owner is None, w.o2_gone)
    return ok, key


class _Null:
    def __getattr__(self, name):
        return lambda *a, **k: None


def quiet(w, ev):
    from mc.ctx import Ctx
    step(_QUIET, w, ev, None)


class _QuietCtx:
    def tr(self, *a):
        pass

    def outcome(self, *a):
        pass

    def nontriv(self, *a):
        pass

    def violation(self, *a, **k):
        pass


_QUIET = _QuietCtx()


# ---------------------------------------------------------------- re-entrant
def reentrant_cells(ctx):
    """A handler removes registrations (its own, an earlier one, a later
    one) or adds one while it is being called. Whether the handler touched
    is still called for the change in flight is left open; from the next
    change on the counters decide, and when everything has been removed the
    notifier populations are back to their initial sizes."""
    import itertools
    from traits.observation.exceptions import NotifierNotFound
    acts = ("remove-self", "remove-earlier", "remove-later", "add-third",
            "remove-self-and-readd")
    for ename, act, n_self in itertools.product(
            [e for e in EXPRS if e != "child"], acts, (1, 2)):
        case = {"reentrant": act, "expr": ename, "n": n_self}
        ctx.case(case)
        ctx.ev()
        pool = G.make_pool()
        root, n1, n2 = pool
        root.child = n1
        root.kids = [n1, n2]
        base = G.fingerprint(G.all_objects(pool))
        calls = {"early": 0, "actor": 0, "late": 0, "third": 0}
        count = {"early": 1, "actor": n_self, "late": 1, "third": 0}
        done = []

        def early(ev):
            calls["early"] += 1

        def late(ev):
            calls["late"] += 1

        def third(ev):
            calls["third"] += 1

        def actor(ev):
            calls["actor"] += 1
            if done:
                return
            done.append(1)
            if act in ("remove-self", "remove-self-and-readd"):
                root.observe(actor, ename, remove=True)
                count["actor"] -= 1
                if act == "remove-self-and-readd":
                    root.observe(actor, ename)
                    count["actor"] += 1
            elif act == "remove-earlier":
                root.observe(early, ename, remove=True)
                count["early"] -= 1
            elif act == "remove-later":
                root.observe(late, ename, remove=True)
                count["late"] -= 1
            else:
                root.observe(third, ename)
                count["third"] += 1
        hs = {"early": early, "actor": actor, "late": late, "third": third}
        root.observe(early, ename)
        for _ in range(n_self):
            root.observe(actor, ename)
        root.observe(late, ename)
        leaf = root if ename == "value" else n1

        def bad(kind, msg):
            ctx.violation("C09:reentrant:%s:%s" % (kind, act), msg, **case)
        ctx.tr()
        try:
            leaf.value += 1             # the change in flight
        except Exception as exc:
            bad("raises", "the change raised %r" % (exc,))
            continue
        if not done:
            bad("harness", "the acting handler was not called")
            continue
        for k in calls:
            calls[k] = 0
        ctx.tr()
        leaf.value += 1                 # the next change: counters decide
        want = {k: (1 if count[k] > 0 else 0) for k in count}
        if calls != want:
            bad("call-count", "%s with %d registration(s) of the acting "
                "handler, which did '%s' during a change: the next change "
                "called %r, expected %r" % (ename, n_self, act, calls, want))
            continue
        ctx.outcome("counted-call")
        # remove what is left; one more removal raises; baseline restored
        ok = True
        for k, n in count.items():
            for _ in range(n):
                try:
                    root.observe(hs[k], ename, remove=True)
                except Exception as exc:
                    ok = False
                    bad("removal-raises", "removing a counted registration "
                        "of %s raised %r" % (k, exc))
                    break
            if not ok:
                break
            try:
                root.observe(hs[k], ename, remove=True)
                ok = False
                bad("extra-removal-accepted", "one removal too many of %s "
                    "did not raise" % k)
                break
            except NotifierNotFound:
                ctx.outcome("NotifierNotFound")
        if not ok:
            continue
        if G.fingerprint(G.all_objects(pool)) != base:
            bad("not-baseline", "all registrations removed but the notifier "
                "populations differ from the initial ones")
        else:
            ctx.outcome("back-to-baseline")


# ------------------------------------------------------------------ anytrait
def container_reentrant_cells(ctx):
    """two handlers observe the items of one container; the first removes
    its own registration while it is being called: the second one is still
    called for that very change, exactly once (and from then on alone)"""
    for cname, mutate in (("kids", lambda o, x: o.kids.append(x)),
                          ("kmap", lambda o, x: o.kmap.__setitem__(
                              "k%d" % len(o.kmap), x)),
                          ("kset", lambda o, x: o.kset.add(x))):
        for order in ("remover-first", "remover-last"):
            case = {"reentrant": "container-" + order, "expr": cname}
            ctx.case(case)
            ctx.ev()
            ctx.tr()
            pool = G.make_pool()
            root, n1, n2 = pool
            getattr(root, cname)            # materialise
            calls = {"remover": 0, "other": 0}
            expr = cname + ":items"

            def remover(ev):
                calls["remover"] += 1
                root.observe(remover, expr, remove=True)

            def other(ev):
                calls["other"] += 1
            for h in ((remover, other) if order == "remover-first"
                      else (other, remover)):
                root.observe(h, expr)
            try:
                mutate(root, n1)
                first = dict(calls)
                mutate(root, n2)
            except Exception as exc:
                ctx.violation("C09:reentrant:container:raises", "%r" % (exc,),
                              **case)
                continue
            if first != {"remover": 1, "other": 1}:
                ctx.violation(
                    "C09:reentrant:container:in-flight:%s" % cname,
                    "a handler removed its own registration while the "
                    "container change was being delivered; for that change "
                    "the handlers were called %r (each is registered once)"
                    % (first,), **case)
                continue
            if calls != {"remover": 1, "other": 2}:
                ctx.violation(
                    "C09:reentrant:container:afterwards:%s" % cname,
                    "after the self-removal the next change called %r"
                    % ({k: calls[k] - first[k] for k in calls},), **case)
                continue
            ctx.outcome("counted-call")


def anytrait_cells(ctx):
    """observe(h, "*") (and a filter given as a bound method) together with
    traits that appear after the registration"""
    import weakref
    from traits.api import HasTraits, Int, List
    from traits.observation.api import match
    from traits.observation.exceptions import NotifierNotFound

    class A(HasTraits):
        v = Int

    # 1. a List instance trait added under a "*" observer, then unobserve
    for read_first in (False, True):
        case = {"anytrait": "added-list", "read_first": read_first}
        ctx.case(case)
        ctx.ev()
        ctx.tr()
        a = A()
        calls = []

        def h(ev):
            calls.append(ev)
        a.observe(h, "*")
        a.add_trait("xs", List(Int))
        if read_first:
            a.xs
        try:
            a.observe(h, "*", remove=True)
        except Exception as exc:
            ctx.violation("C09:anytrait:added-list:removal-raises",
                          "unobserve raised %r" % (exc,), **case)
            continue
        calls.clear()
        a.xs = [1]
        a.xs.append(2)
        a.v = 3
        if calls:
            ctx.violation(
                "C09:anytrait:added-list:still-called",
                "observe(h, '*'); add_trait('xs', List(Int)); unobserve: the "
                "handler is still called %d time(s) (%s)" % (
                    len(calls), sorted({getattr(c, "name", "?")
                                        for c in calls})), **case)
        else:
            ctx.outcome("back-to-baseline")
    # 2. an undeclared attribute first touched on ANOTHER instance
    case = {"anytrait": "undeclared-on-sibling"}
    ctx.case(case)
    ctx.ev()
    ctx.tr()

    class B(HasTraits):
        pass
    p, q = B(), B()
    calls = []

    def h2(ev):
        calls.append(ev)
    q.observe(h2, "*")
    p.foo = 1
    q.foo = 2
    try:
        q.observe(h2, "*", remove=True)
        calls.clear()
        q.foo = 3
        if calls:
            ctx.violation("C09:anytrait:undeclared-on-sibling:still-called",
                          "handler called after its only registration was "
                          "removed", **case)
        else:
            ctx.outcome("back-to-baseline")
    except NotifierNotFound:
        ctx.violation(
            "C09:anytrait:undeclared-on-sibling:removal-raises",
            "q.observe(h, '*'); p.foo = 1; q.foo = 2 (an undeclared name "
            "first touched on another instance of the class): removing the "
            "one registration raises NotifierNotFound and leaves it in place",
            **case)
    # 3. a filter that is a bound method of the observed object
    case = {"anytrait": "bound-filter"}
    ctx.case(case)
    ctx.ev()
    ctx.tr()

    class C(HasTraits):
        v = Int

        def only_v(self, name, trait):
            return name == "v"
    c = C()
    r = weakref.ref(c)
    c.observe(h2, match(c.only_v))
    c.observe(h2, match(c.only_v), remove=True)
    del c
    gc.collect()
    if r() is not None:
        ctx.violation(
            "C09:anytrait:bound-filter:kept-alive",
            "c.observe(h, match(c.method)) followed by its removal: the "
            "object is kept alive after the last outside reference is gone",
            **case)
    else:
        ctx.outcome("object-collected")
    # 4. a plain-function handler that refers to the object it is registered
    # on: a reference cycle through the notifier list, which the collector
    # must be able to see (registration still in place)
    for mech in ("observe", "on_trait_change"):
        case = {"anytrait": "closure-cycle", "mech": mech}
        ctx.case(case)
        ctx.ev()
        ctx.tr()
        o = A()
        r = weakref.ref(o)

        def mk(obj):
            def hh(*args):
                return obj
            return hh
        if mech == "observe":
            o.observe(mk(o), "v")
        else:
            o.on_trait_change(mk(o), "v")
        o.v = 1
        del o
        gc.collect()
        if r() is not None:
            ctx.violation("C09:lifetime:closure-cycle:%s" % mech,
                          "an object whose %s handler is a closure over the "
                          "object itself is never collected" % mech, **case)
        else:
            ctx.outcome("object-collected")
    # 5. a handler that raises all the way to the caller of the assignment
    from traits.observation.api import (pop_exception_handler,
                                        push_exception_handler)
    case = {"anytrait": "raising-handler-lifetime"}
    ctx.case(case)
    ctx.ev()
    ctx.tr()
    o = A()
    r = weakref.ref(o)

    def boom(ev):
        raise ValueError("handler fails")
    o.observe(boom, "v")
    push_exception_handler(reraise_exceptions=True)
    try:
        for i in range(3):
            try:
                o.v = i + 1
            except ValueError:
                pass
    finally:
        pop_exception_handler()
    o.observe(boom, "v", remove=True)
    del o
    gc.collect()
    if r() is not None:
        ctx.violation("C09:lifetime:raising-handler",
                      "after changes whose handler raised to the caller, and "
                      "removal of the handler, the object is never collected",
                      **case)
    else:
        ctx.outcome("object-collected")


    # 5b. a link that is a Property (observed through its change events;
    # its value is never in the instance dictionary): add, let the link
    # change, remove -> nothing left on the object the property handed out
    from traits.api import Property as _Prop
    for cached in (False, True):
        case = {"anytrait": "property-link", "cached": cached}
        ctx.case(case)
        ctx.ev()
        ctx.tr()

        class PB(HasTraits):
            value = Int

        class PA(HasTraits):
            src = Instance(PB)
            prop = _Prop(Instance(PB), observe="src")

            def _get_prop(self):
                return self.src
        if cached:
            from traits.api import cached_property as _cp
            PA._get_prop = _cp(PA.__dict__["_get_prop"])
        a = PA()
        calls = []

        def hp(ev):
            calls.append(ev.name)
        a.observe(hp, "prop.value")
        b = PB()
        a.src = b
        calls.clear()
        b.value = 1
        if calls != ["value"]:
            ctx.violation("C09:property-link:not-followed",
                          "the object handed out by the property after its "
                          "change event is followed with %d call(s)"
                          % len(calls), **case)
            continue
        try:
            a.observe(hp, "prop.value", remove=True)
        except Exception as exc:
            ctx.violation("C09:property-link:removal-raises",
                          "removal raised %r" % (exc,), **case)
            continue
        calls.clear()
        b.value = 2
        left = [n for n in (b._trait("value", 0)._notifiers(False) or [])]
        if calls or left:
            ctx.violation("C09:property-link:left-behind",
                          "after the one registration was removed the "
                          "handler is still called (%d) for the object "
                          "reached through the property link; %d notifier(s) "
                          "left on it" % (len(calls), len(left)), **case)
        else:
            ctx.outcome("object-collected")
    # 6. the function-level API with a dispatcher of the caller's own: a
    # bound method (a new but equal object at every access), a callable
    # instance, a partial; all counts k = 1..3 and every expression kind
    import functools
    from traits.observation.api import observe as api_observe, parse

    class Disp:
        def __init__(self):
            self.seen = 0

        def dispatch(self, handler, event):
            self.seen += 1
            handler(event)

        __call__ = dispatch

    def _plain(handler, event, tag=None):
        handler(event)
    for dkind in ("bound-method", "callable-instance", "partial"):
        for expr, mutate in (
                ("value", lambda p: setattr(p[0], "value", p[0].value + 1)),
                ("child.value",
                 lambda p: setattr(p[1], "value", p[1].value + 1)),
                ("kids.items.value",
                 lambda p: setattr(p[2], "value", p[2].value + 1))):
            for k in (1, 2, 3):
                case = {"anytrait": "own-dispatcher", "dispatcher": dkind,
                        "expr": expr, "k": k}
                ctx.case(case)
                ctx.ev()
                ctx.tr()
                pool = G.make_pool()
                pool[0].child = pool[1]
                pool[0].kids = [pool[2]]
                disp = Disp()
                # (partial objects have no value equality: one object)
                part = functools.partial(_plain, tag=1)
                get = {"bound-method": lambda: disp.dispatch,
                       "callable-instance": lambda: disp,
                       "partial": lambda: part,
                       }[dkind]
                calls = []

                def hd(ev):
                    calls.append(ev.name)
                base = G.fingerprint(pool)
                for _ in range(k):
                    api_observe(pool[0], parse(expr), hd, dispatcher=get())
                mutate(pool)
                if len(calls) != 1:
                    ctx.violation(
                        "C09:own-dispatcher:calls:%s" % dkind,
                        "%d registrations of one (handler, expression, "
                        "dispatcher) called the handler %d times for one "
                        "change" % (k, len(calls)), **case)
                ok = True
                for i in range(k):
                    try:
                        api_observe(pool[0], parse(expr), hd, remove=True,
                                    dispatcher=get())
                    except NotifierNotFound:
                        ok = False
                        ctx.violation(
                            "C09:own-dispatcher:removal-raises:%s" % dkind,
                            "removal %d of %d registrations raised "
                            "NotifierNotFound" % (i + 1, k), **case)
                        break
                if not ok:
                    continue
                try:
                    api_observe(pool[0], parse(expr), hd, remove=True,
                                dispatcher=get())
                    ctx.violation(
                        "C09:own-dispatcher:extra-removal:%s" % dkind,
                        "removal %d of %d registrations did not raise"
                        % (k + 1, k), **case)
                except NotifierNotFound:
                    ctx.outcome("NotifierNotFound")
                del calls[:]
                mutate(pool)
                if calls or G.fingerprint(pool) != base:
                    ctx.violation(
                        "C09:own-dispatcher:left-behind:%s" % dkind,
                        "after as many removals as registrations the "
                        "handler was called %d times / notifiers are left "
                        "behind" % len(calls), **case)
                else:
                    ctx.outcome("owner-collected" if False else
                                "object-collected")


def shards(tier):
    evs = event_menu()
    n = len(evs)
    return [{"first": -1, "eq": False}, {"first": -2, "eq": False}] + \
        [{"first": i, "eq": eq} for eq in (False, True, "falsy")
         for i in range(n)]


def run_shard(ctx, shard, tier):
    if shard["first"] == -1:
        reentrant_cells(ctx)
        container_reentrant_cells(ctx)
        ctx.depth_completed = 2
        return
    if shard["first"] == -2:
        anytrait_cells(ctx)
        ctx.depth_completed = 2
        return
    evs = event_menu()
    depth = 3 if tier == "quick" else 4
    frontier = [[]]
    n_exec = 0
    for d in range(1, depth + 1):
        nxt = []
        for hist in frontier:
            for ev in ([evs[shard["first"]]] if d == 1 else evs):
                h2 = hist + [ev]
                ctx.case({"history": h2, "eq": shard["eq"]})
                ok, key = run_history(ctx, h2, eq=shard["eq"])
                if ok is None:
                    continue
                ctx.ev()
                n_exec += 1
                if n_exec % 500 == 0:
                    gc.collect()
                if ok and ctx.state(key):
                    nxt.append(h2)
        frontier = nxt
    ctx.depth_completed = depth
    ctx.sample({"history": frontier[0] if frontier else [evs[shard["first"]]]})


def replay(rec):
    from mc.ctx import Ctx
    ctx = Ctx("C09", None, "quick", 0)
    c = rec.get("case") or rec
    if c.get("anytrait"):
        anytrait_cells(ctx)
        want = rec.get("sig")
        hit = [v for v in ctx.violations.values()
               if want is None or v["sig"] == want]
        for v in hit:
            print("  violation:", v["sig"], v["msg"])
        return not hit
    if str(c.get("reentrant", "")).startswith("container-"):
        container_reentrant_cells(ctx)
        for v in ctx.violations.values():
            print("  violation:", v["sig"], v["msg"])
        return not ctx.violations
    if c.get("reentrant"):
        reentrant_cells(ctx)
        for v in ctx.violations.values():
            print("  violation:", v["sig"], v["msg"])
        return not ctx.violations
    hist = [tuple(e) for e in c["history"]]
    run_history(ctx, hist, eq=c.get("eq", False))
    print("history", hist)
    for v in ctx.violations.values():
        print("  violation:", v["sig"], v["msg"])
    return not ctx.violations
