"""C03 — compiled fast validators decide exactly like the Python validators.

For every configuration of the shared grid whose handler carries a
fast-validation descriptor: CTrait.validate (compiled path) vs
handler.validate (Python path) on every lattice value; for compounds
additionally vs each alternative's own CTrait.validate in the documented
evaluation order.
"""
from traits.api import HasTraits, TraitError
from traits.trait_handlers import TraitCompound

from props import lattice as L
from props.c01_domain import owner_class, vclass

LEVEL = "exploration"
RULE = ("exhaustive product: every grid configuration with a fast-validation "
        "descriptor (singles, every ordered pair of 30 members as Either and "
        "Union, triples, Tuple/List item paths) x the value lattice; each case"
        " = three-way comparison compiled / Python / first accepting "
        "alternative; non-trivial = at least one side accepted or converted; "
        "distinct = distinct (configuration, value label)")
EXPLANATION = ("differential oracle between two implementations inside the "
               "code base plus a reference semantics for compounds (first "
               "accepting alternative in the documented evaluation order)")
BOUNDS = {"quick": "full grid x full lattice", "thorough": "same + every ordered triple of 13 members as Either + Tuple "
          "member and Event paths for every single configuration"}
ASSUMPTIONS = ["lattice values only", "compound evaluation order as "
               "documented: alternatives with a fast descriptor in "
               "declaration order, then the others in declaration order"]
MIN_OUTCOMES = {t: ["both-accept", "both-reject", "compound-first-alt",
                    "converted", "other-exception-agree"]
                for t in ("quick", "thorough")}
TIMEOUT = {"quick": 900, "thorough": 3600}


def outcome(f, *args):
    try:
        r = f(*args)
    except TraitError:
        return ("TraitError",)
    except BaseException as e:
        return ("exc", type(e).__name__)
    return ("ok", r)


def same(a, b):
    if a[0] != b[0]:
        return False
    if a[0] == "ok":
        return a[1] is b[1] or (type(a[1]) is type(b[1])
                                and L.same_or_nan(a[1], b[1]))
    return a == b


def show(o):
    if o[0] == "ok":
        return "ok %r (%s)" % (o[1], type(o[1]).__name__)
    return " ".join(o)


_HASPY = {}


def has_python_validate(cname):
    """False for trait types without a Python-level validate method (Module)
    and for compounds containing one: there is nothing to compare with."""
    if cname not in _HASPY:
        names = L.COMPOUND_MEMBERS.get(cname) or [cname]
        ok = True
        for n in names:
            hh = owner_class(n).class_traits()["x"].handler
            if not callable(getattr(hh, "validate", None)):
                ok = False
        _HASPY[cname] = ok
    return _HASPY[cname]


def fast_of(cname):
    cls = owner_class(cname)
    ct = cls.class_traits()["x"]
    return getattr(ct.handler, "fast_validate", None)


def one(ctx, cname, label):
    cls = owner_class(cname)
    obj = cls()
    ct = obj.trait("x")
    h = ct.handler
    fv = getattr(h, "fast_validate", None)
    v = L.value(label)
    ctx.ev()
    ctx.tr()
    case = {"config": cname, "value": label}

    def bad(kind, msg, **kw):
        ctx.violation("C03:%s:%s:%s" % (kind, L.CONFIGS[cname].kind,
                                        vclass(label)), msg, **dict(case, **kw))

    items_before = list(v) if type(v) is tuple else None
    rc = outcome(ct.validate, obj, "x", v)
    if items_before is not None and (
            len(v) != len(items_before)
            or any(a is not b for a, b in zip(v, items_before))):
        bad("input-mutated", "validation changed the caller's own tuple "
            "from %r to %r" % (tuple(items_before), v))
    if fv is not None and has_python_validate(cname):
        rp = outcome(h.validate, obj, "x", v)
        # The statement fixes: Python accepts <=> compiled accepts (equal
        # value, same exact type); Python TraitError => compiled TraitError.
        # When the Python method lets a foreign exception of the value's own
        # protocol escape, the compiled path must merely not accept.
        if rp[0] == "exc":
            # (for compounds the first-accepting-alternative clause below
            # governs: a later alternative may legitimately accept)
            agree = rc[0] != "ok" or cname in L.COMPOUND_MEMBERS
        else:
            agree = same(rc, rp)
        if not agree:
            bad("fast-vs-python", "compiled: %s; Python validate: %s"
                % (show(rc), show(rp)), compiled=show(rc), python=show(rp))
        if rc[0] == "ok":
            ctx.outcome("both-accept")
            if rc[1] is not v:
                ctx.outcome("converted")
            ctx.nontriv((cname, label))
        elif rc[0] == "TraitError":
            ctx.outcome("both-reject")
        else:
            ctx.outcome("other-exception-agree")
            ctx.nontriv((cname, label))
    members = L.COMPOUND_MEMBERS.get(cname)
    if members:
        # reference: first accepting alternative in documented order
        is_union = cname.startswith("Union")
        order = list(members)
        if not is_union:
            order = [m for m in members if fast_of(m) is not None] + \
                    [m for m in members if fast_of(m) is None]
        exp = ("TraitError",)
        which = None
        for m in order:
            mobj = owner_class(m)()
            r = outcome(mobj.trait("x").validate, mobj, "x", v)
            if r[0] != "TraitError":
                exp, which = r, m
                break
        ctx.outcome("compound-first-alt")
        lazy = any(L.CONFIGS[m].kind == "Instance-byname" for m in members)
        if lazy and not same(rc, exp):
            # an Instance declared by class name is a slow alternative until
            # its class has been resolved and a fast one afterwards, so its
            # position in the evaluation order is not fixed: any accepting
            # alternative's own result is accepted
            for m in members:
                mobj = owner_class(m)()
                r = outcome(mobj.trait("x").validate, mobj, "x", v)
                if r[0] != "TraitError" and same(rc, r):
                    exp = r
                    break
        if not same(rc, exp):
            ctx.violation(
                "C03:compound:%s:%s" % (
                    "Union" if is_union else "Either",
                    "|".join(L.CONFIGS[m].kind for m in members)),
                "compound gives %s; first accepting alternative "
                "(%s) alone gives %s" % (show(rc), which, show(exp)),
                **dict(case, compound=show(rc), alternative=which,
                       alone=show(exp)))
        elif rc[0] == "ok":
            ctx.nontriv((cname, label))


def item_paths(ctx, cname, label):
    """The same member used as a Tuple member and as a List item must decide
    as it does alone (thorough tier)."""
    from traits.api import List, Tuple
    c = L.CONFIGS[cname]
    key = "__paths__" + cname
    if key not in _PATHS:
        class P(HasTraits):
            t = Tuple(c.make(), c.make())
            l = List(c.make())
        _PATHS[key] = P
    P = _PATHS[key]
    v = L.value(label)
    alone_obj = owner_class(cname)()
    alone = outcome(alone_obj.trait("x").validate, alone_obj, "x", v)
    p = P()
    ctx.ev()
    ctx.tr()
    pair = (v, v)
    rt = outcome(p.trait("t").validate, p, "t", pair)
    if pair[0] is not v or pair[1] is not v:
        ctx.violation("C03:input-mutated:%s:%s" % (c.kind, vclass(label)),
                      "validation of a Tuple trait changed the caller's own "
                      "tuple to %r" % (pair,), config=cname, value=label,
                      paths=True)
    rl = outcome(p.trait("l").validate, p, "l", [v])
    exp_t = ("ok", (alone[1], alone[1])) if alone[0] == "ok" else alone
    if alone[0] == "exc":
        return          # protocol exceptions inside containers: unspecified
    okt = (rt[0] == exp_t[0]) and (rt[0] != "ok" or L.same_or_nan(
        rt[1], exp_t[1]))
    if not okt:
        ctx.violation("C03:tuple-member:%s:%s" % (c.kind, vclass(label)),
                      "Tuple member decides %s, alone %s" % (show(rt),
                                                             show(alone)),
                      config=cname, value=label)
    okl = (rl[0] == alone[0]) and (rl[0] != "ok" or (
        len(rl[1]) == 1 and type(rl[1][0]) is type(alone[1]) and
        L.same_or_nan(rl[1][0], alone[1])))
    if not okl:
        ctx.violation("C03:list-item:%s:%s" % (c.kind, vclass(label)),
                      "List item decides %s, alone %s" % (show(rl),
                                                          show(alone)),
                      config=cname, value=label)
    ctx.outcome("item-path")


_PATHS = {}


def relevant(cname):
    if cname in L.COMPOUND_MEMBERS:
        return True
    try:
        return fast_of(cname) is not None
    except Exception:
        return False


def late_mapping_cells(ctx):
    """The caller's mapping is changed after the trait was defined: whatever
    the trait makes of that, its compiled and its Python validator still
    decide alike (alone and as a compound alternative)."""
    from traits.api import Either, Map
    for change in ("add", "remove", "replace"):
        for compound in (False, True):
            d = {"yes": 1, "no": 0}

            class H(HasTraits):
                x = Either(L.Int, Map(d)) if compound else Map(d)
            if change == "add":
                d["maybe"] = 2
            elif change == "remove":
                del d["no"]
            else:
                d.clear()
                d.update({"on": 1})
            obj = H()
            ct = obj.trait("x")
            hs = ct.handler.handlers if compound else [ct.handler]
            mh = [h for h in hs if isinstance(h, Map)][0]
            for v in ("yes", "no", "maybe", "on", "zzz"):
                ctx.case({"late_mapping": change, "compound": compound,
                          "value": v})
                ctx.ev()
                ctx.tr()
                rc = outcome(ct.validate, obj, "x", v)
                rp = outcome(mh.validate, obj, "x", v)
                if not same(rc, rp):
                    ctx.violation(
                        "C03:late-mapping:%s:%s" % (
                            change, "Either" if compound else "Map"),
                        "mapping changed (%s) after the trait was defined; "
                        "%r: compiled %s, Python validate %s" % (
                            change, v, show(rc), show(rp)),
                        late_mapping=change, compound=compound, value=v)
                else:
                    ctx.outcome("both-accept" if rc[0] == "ok"
                                else "both-reject")


def shards(tier):
    if tier == "thorough":
        L.add_triples()
    n = 32
    return [{"chunk": i, "of": n} for i in range(n)]


def run_shard(ctx, shard, tier):
    if tier == "thorough":
        L.add_triples()
    names = [n for n in L.NAMES if relevant(n)]
    names = names[shard["chunk"]::shard["of"]]
    if shard["chunk"] == 0:
        late_mapping_cells(ctx)
    for cname in names:
        c = L.CONFIGS[cname]
        ctx.state(cname)
        single = cname not in L.COMPOUND_MEMBERS and \
            c.kind not in ("Either3", "Either-nested", "Union2", "Either2")
        for label in L.LABELS:
            if label in c.skip:
                continue
            ctx.case({"config": cname, "value": label})
            one(ctx, cname, label)
            if single and (tier == "thorough" or label in _SUB):
                ctx.case({"config": cname, "value": label, "paths": True})
                item_paths(ctx, cname, label)
    if names:
        ctx.sample({"config": names[0], "value": "fnan"})
    ctx.depth_completed = 1


from props.c01_domain import SUB as _SUB  # noqa: E402


def replay(rec):
    from mc.ctx import Ctx
    ctx = Ctx("C03", None, "quick", 0)
    c = rec["case"]
    if c.get("late_mapping"):
        late_mapping_cells(ctx)
    elif c.get("paths"):
        item_paths(ctx, c["config"], c["value"])
    else:
        one(ctx, c["config"], c["value"])
    for v in ctx.violations.values():
        print("  violation:", v["sig"], v["msg"])
    return not ctx.violations
