"""C05 — TraitList refines list; events are faithful normalised deltas.

All states (contents up to a length bound) x all operations, one step from
every state (contents + validator + notifier list is the whole state of a
TraitList), plus depth-2 sequences on short lists to validate that argument.
"""
import itertools

from traits.api import (Any, CInt, HasStrictTraits, HasTraits, List, Property,
                        Union)
from traits.trait_list_object import TraitList
from traits.trait_errors import TraitError

LEVEL = "model_checking"
RULE = ("every (validator mode, list contents up to the length bound, operation"
        " with every index/slice/argument in range) is executed on a real "
        "TraitList and on a built-in list; a case is non-trivial when the "
        "operation changed the contents, emitted an event or raised; distinct"
        " = distinct (mode, contents, operation)")
EXPLANATION = ("direct exploration of the implementation: every trace is an "
               "implementation trace; reference model = built-in list on "
               "validated items")
BOUNDS = {"quick": "lengths 0..6 distinct items (0..4 for the List-trait owner mode), dup/perm patterns <=4, "
                   "indices/slice bounds -(n+3)..n+3, steps None,+-1,+-2,+-3,"
                   "+-(n+2), replacement length 0..4, depth-2 on length<=2; six owner / validator modes incl. a list behind a Property "
                   "(lengths 0..3) and a strict Union(None, List) owner (0..3); __index__-only keys; sorts that fail half-way",
          "thorough": "lengths 0..9, dup/perm patterns <=4, depth-2 on "
                      "length<=3"}
ASSUMPTIONS = ["list operations are parametric in pairwise distinct items, so "
               "distinct-item lists of each length plus all duplicate patterns"
               " of length<=4 represent all contents",
               "items are ints / digit strings; validators are pure"]
MIN_OUTCOMES = {t: ["event-int", "event-slice", "silent-noop",
                    "identity-event", "IndexError", "ValueError", "TypeError",
                    "TraitError", "items-event", "observer-event"]
                for t in ("quick", "thorough")}
TIMEOUT = {"quick": 600, "thorough": 3000}

BAD = -1
MODES = ("id", "coerce", "reject", "owner")
#: "ownerb": the owner mode on a List trait with length bounds 1..4 (an
#: operation whose result would leave the bounds is refused with TraitError
#: - property C04 -, every other one behaves as on a list)
BOUNDS_B = (1, 4)
#: "ownerp": the list is the value of a validated Property(List(CInt)) whose
#: setter keeps it elsewhere (reached through the getter, never through the
#: instance dictionary entry of its own name); "owners": a strict class whose
#: attribute is Union(None, List(CInt)) and whose items handler was attached
#: by name before the first mutation (the x_items trait is made on demand)
UNBOUNDED_OWNERS = ("owner", "ownerp", "owners")
OWNERS = UNBOUNDED_OWNERS + ("ownerb",)
COERCING = ("coerce",) + OWNERS


class Idx:
    """an index that is not an int: only __index__"""

    def __init__(self, i):
        self.i = i

    def __index__(self):
        return self.i

    def __repr__(self):
        return "Idx(%d)" % self.i


def validator(mode):
    if mode == "id":
        return None
    if mode == "coerce":
        def v(x):
            if isinstance(x, str):
                try:
                    return int(x)
                except ValueError:
                    raise TraitError("bad item %r" % (x,))
            return x
        return v

    def v(x):
        if x == BAD:
            raise TraitError("rejected item")
        return x
    return v


def model_validate(mode, x):
    if mode in COERCING and isinstance(x, str):
        if x.lstrip("-").isdigit():
            return int(x)
        raise TraitError("bad")
    if mode == "reject" and x == BAD:
        raise TraitError("bad")
    return x


def key_of(k):
    if isinstance(k, list):
        if k[0] == "idx":
            return Idx(k[1])
        return slice(*k[1:])
    return k


class ByNeg:
    """sort key, picklable-free (ops are replayed by name)."""


KEYFUNCS = {None: None, "neg": lambda x: -x, "mod2": lambda x: x % 2,
            # keys that cannot all be compared with each other: the sort
            # fails half-way through its comparisons
            "clash": lambda x: "s" if x % 3 == 2 else x}


def do(lst, op, validated=None):
    """Apply op to lst (list or TraitList). `validated`: replacement payload
    (already validated) for the model run.  Returns the operation's return
    value."""
    name = op[0]
    if name == "setitem":
        lst[key_of(op[1])] = op[2] if validated is None else validated
    elif name == "delitem":
        del lst[key_of(op[1])]
    elif name == "append":
        lst.append(op[1] if validated is None else validated)
    elif name == "extend":
        lst.extend(op[1] if validated is None else validated)
    elif name == "iadd":
        r = lst
        r += (op[1] if validated is None else validated)
        return r is lst
    elif name == "imul":
        r = lst
        r *= op[1]
        return r is lst
    elif name == "insert":
        lst.insert(op[1], op[2] if validated is None else validated)
    elif name == "pop":
        return lst.pop(*op[1:])
    elif name == "remove":
        lst.remove(op[1])
    elif name == "clear":
        lst.clear()
    elif name == "reverse":
        lst.reverse()
    elif name == "sort":
        lst.sort(key=KEYFUNCS[op[1]], reverse=op[2])
    else:
        raise AssertionError(name)
    return None


def resolve(op, before, live):
    """Replace the payload tokens: "SELF" = the list itself (the model gets
    a copy of the contents), "FLOATS" = the items the key selects, as floats
    (equal to what they replace, but other objects of another type)."""
    if op[0] in ("setitem", "extend", "iadd") and isinstance(op[-1], str) \
            and op[-1] in ("SELF", "FLOATS"):
        if op[-1] == "SELF":
            pl = live if live is not None else list(before)
        else:
            try:
                sel = list(before)[key_of(op[1])]
            except Exception:
                sel = []
            pl = [float(x) for x in sel] if isinstance(sel, list) else []
        return op[:-1] + (pl,)
    return op


def typed(xs):
    return [(type(x).__name__, x) for x in xs]


def payload(op):
    """(kind, payload) of values that get inserted by op."""
    name = op[0]
    if name == "setitem":
        if isinstance(op[1], list) and op[1][0] == "s":
            return "many", op[2]
        return "one", op[2]
    if name == "append":
        return "one", op[1]
    if name in ("extend", "iadd"):
        return "many", op[1]
    if name == "insert":
        return "one", op[2]
    return None, None


def model(mode, before, op):
    """Returns (acceptable_exception_classes, ok_result or None).
    ok_result = (return value, contents after)."""
    kind, pl = payload(op)
    val_exc = None
    validated = None
    if kind == "one":
        try:
            validated = model_validate(mode, pl)
        except TraitError:
            val_exc = TraitError
    elif kind == "many":
        try:
            iter(pl)
        except TypeError:
            # non-iterable payload: list raises TypeError
            return {TypeError}, None
        try:
            validated = [model_validate(mode, x) for x in pl]
        except TraitError:
            val_exc = TraitError
    ref = list(before)
    if val_exc is not None:
        acc = {TraitError}
        try:
            do(ref, op)           # would the builtin refuse anyway?
        except Exception as e:
            acc.add(type(e))
        return acc, None
    try:
        ret = do(ref, op, validated if kind else None)
    except Exception as e:
        acc = {type(e)}
        if mode == "ownerb":
            # doubly refused: the list refuses the arguments, and the length
            # check (made first) would refuse any removal / insertion here
            shrink = op[0] in ("pop", "remove", "delitem", "clear")
            grow = op[0] in ("insert", "append", "extend", "iadd", "imul",
                             "setitem")
            if (shrink and len(before) <= BOUNDS_B[0]) or \
                    (grow and len(before) >= BOUNDS_B[1]):
                acc.add(TraitError)
        return acc, None
    if mode == "ownerb" and not BOUNDS_B[0] <= len(ref) <= BOUNDS_B[1]:
        return {TraitError}, None
    return set(), (ret, ref)


def check_event(before, after, ev):
    """Replay law + normal form. Returns error string or None."""
    index, removed, added = ev
    b = list(before)
    if isinstance(index, slice):
        st, sp, step = index.start, index.stop, index.step
        if not all(type(x) is int for x in (st, sp, step)):
            return "slice fields not ints: %r" % (index,)
        if not (0 <= st < sp <= len(before) and step >= 2):
            return "slice not normalised: %r (len %d)" % (index, len(before))
        if b[index] != removed:
            return "removed %r != before[%r] = %r" % (removed, index, b[index])
        try:
            if added:
                b[index] = added
            else:
                del b[index]
        except ValueError as e:
            return "replay failed: %s" % e
    else:
        if type(index) is not int or index < 0:
            return "index not a non-negative int: %r" % (index,)
        if index > len(before):
            return "index %r beyond old length %d" % (index, len(before))
        if b[index:index + len(removed)] != removed:
            return "removed %r != before[%d:%d]" % (removed, index,
                                                    index + len(removed))
        b[index:index + len(removed)] = added
    if b != after:
        return "replay gives %r, contents are %r" % (b, after)
    return None


class Rec:
    def __init__(self):
        self.events = []
        self.extra = {}

    def __call__(self, tl, index, removed, added):
        self.events.append((index, list(removed), list(added), list(tl)))


def step(ctx, mode, tl, rec, ref, op, tag):
    """Execute op on the live TraitList `tl` whose model contents are `ref`
    (a list, updated in place). Returns False when a violation was recorded."""
    before = list(ref)
    ctx.tr()
    acc, ok = model(mode, before, resolve(op, before, None))
    rec.events.clear()
    for log in rec.extra.values():
        log.clear()
    notifiers, val = tl.notifiers, tl.item_validator
    n_notifiers = len(notifiers)
    try:
        ret = do(tl, resolve(op, before, tl))
        exc = None
    except Exception as e:
        ret, exc = None, type(e)
    after = list(tl)
    evs = list(rec.events)
    good = True

    def bad(kind, msg):
        nonlocal good
        good = False
        ctx.violation("C05:%s:%s:%s" % (kind, op[0], mode), msg, mode=mode,
                      before=before, op=op, tag=tag,
                      observed={"exc": exc and exc.__name__, "after": after,
                                "events": [repr(e[:3]) for e in evs]},
                      expected={"exc": sorted(c.__name__ for c in acc),
                                "after": ok and ok[1]})

    bare = getattr(rec, "bare", False)
    if tl.notifiers is not notifiers or len(tl.notifiers) != n_notifiers \
            or (not bare and tl.notifiers[-1] is not rec) \
            or tl.item_validator != val:
        bad("hooks", "notifiers/item_validator altered by the operation")
    if exc is not None:
        ctx.outcome(exc.__name__)
        if ok is not None:
            bad("spurious-exc", "raised %s where list succeeds" % exc.__name__)
        elif exc not in acc:
            bad("exc-class", "raised %s, list raises %s" % (
                exc.__name__, sorted(c.__name__ for c in acc)))
        if op[0] == "sort" and after != before:
            # a sort whose comparisons fail may leave the built-in list
            # re-ordered; then this is a change like any other: a
            # permutation, announced by exactly one faithful notification
            if sorted(map(repr, after)) != sorted(map(repr, before)):
                bad("failed-sort-contents", "a failing sort left %r" % after)
            elif not bare and len(evs) != 1:
                bad("failed-sort-silent", "a failing sort re-ordered the "
                    "contents to %r and emitted %d notification(s)"
                    % (after, len(evs)))
            elif not bare:
                err = check_event(before, after, evs[0][:3])
                if err:
                    bad("event", err)
            ref[:] = after
            ctx.nontriv((mode, before, op))
            return good
        if after != before:
            bad("failed-op-mutated", "failing operation changed contents")
        if evs or any(rec.extra.values()):
            bad("failed-op-notified", "failing operation emitted %d event(s)"
                % (len(evs) + sum(map(len, rec.extra.values()))))
        ctx.nontriv((mode, before, op))
        return good
    if ok is None:
        bad("missing-exc", "succeeded where list raises %s"
            % sorted(c.__name__ for c in acc))
        ref[:] = after
        return good
    eret, eafter = ok
    if after != eafter or [type(x) for x in after] != [type(x) for x in eafter]:
        bad("contents", "contents differ from built-in list")
    if ret != eret:
        bad("return", "return value %r, list returns %r" % (ret, eret))
    ref[:] = after
    # "changes the contents": another value or a value of another type at
    # some position (1 replaced by 1.0 is a change although 1 == 1.0)
    if typed(after) != typed(before):
        ctx.nontriv((mode, before, op))
        if bare:
            pass
        elif len(evs) != 1:
            bad("event-count", "contents changed but %d events emitted"
                % len(evs))
        else:
            err = check_event(before, after, evs[0][:3])
            if err:
                bad("event", err)
            ctx.outcome("event-slice" if isinstance(evs[0][0], slice)
                        else "event-int")
    else:
        if not evs:
            ctx.outcome("silent-noop")
        else:
            ctx.outcome("identity-event")
            ctx.nontriv((mode, before, op))
            for e in evs:
                err = check_event(before, after, e[:3])
                if err:
                    bad("noop-event", "unchanged contents but event is not an"
                        " identity: " + err)
    # the same laws for the "_items" trait event and the observer's
    # ListChangeEvent of a List trait value (owner mode)
    for lname, log in rec.extra.items():
        if len(log) != len(evs):
            bad("%s-count" % lname, "%d raw notifications but %d %s events"
                % (len(evs), len(log), lname))
            continue
        for e in log:
            ctx.outcome(lname + "-event")
            err = check_event(before, after, e)
            if err:
                bad(lname + "-event", "%s event: %s" % (lname, err))
    return good


# ---------------------------------------------------------------- alphabets
def new_items(mode, k, base=100):
    """Replacement payloads of length k (simplest first)."""
    good = [base + i for i in range(k)]
    out = [good]
    if mode in COERCING and k:
        out.append([str(x) for x in good])
        if k >= 1:
            out.append(good[:-1] + ["x"])
    if mode == "reject":
        for pos in range(k):
            out.append(good[:pos] + [BAD] + good[pos + 1:])
    return out


def one_items(mode):
    out = [100]
    if mode in COERCING:
        out += ["100", "x"]
    if mode == "reject":
        out.append(BAD)
    return out


def ops_for(mode, n, tier, light=False):
    """All operations explored from a state of length n."""
    R = 3
    idx = list(range(-(n + R), n + R + 1))
    ops = []
    for i in idx:
        for v in one_items(mode):
            ops.append(("setitem", i, v))
        ops.append(("delitem", i))
        ops.append(("pop", i))
        for v in one_items(mode):
            ops.append(("insert", i, v))
    ops.append(("pop",))
    # keys that are not ints but have __index__ (list accepts them as keys)
    for i in (-(n + 1), -1, 0, n - 1, n):
        ops.append(("setitem", ["idx", i], 100))
        ops.append(("delitem", ["idx", i]))
    for v in one_items(mode):
        ops.append(("append", v))
    maxrep = 2 if light else 4
    for k in range(0, 4):
        for pl in new_items(mode, k):
            ops.append(("extend", pl))
            ops.append(("iadd", pl))
    ops.append(("extend", (100, 101)))
    ops.append(("iadd", iter([100])) if False else ("iadd", (100,)))
    for m in (-1, 0, 1, 2, 3):
        ops.append(("imul", m))
    for v in list(range(n)) + [999]:
        ops.append(("remove", v))
    ops += [("clear",), ("reverse",), ("sort", None, False),
            ("sort", None, True), ("sort", "neg", False),
            ("sort", "mod2", False), ("sort", "mod2", True),
            ("sort", "clash", False), ("sort", "clash", True)]
    # type errors
    ops += [("setitem", "a", 100), ("delitem", "a"), ("insert", "a", 100),
            ("pop", "a"), ("extend", 5), ("iadd", 5), ("setitem",
            ["s", None, None, None], 5), ("imul", "a"), ("setitem", 1.0, 100),
            ("delitem", None)]
    bounds = [None] + idx
    if light:
        bounds = [None] + list(range(-(n + 1), n + 2))
    steps = [None, 1, -1, 2, -2, 3, -3, n + 2, -(n + 2)]
    if light:
        steps = [None, -1, 2, -2]
    for st in bounds:
        for sp in bounds:
            for step_ in steps:
                key = ["s", st, sp, step_]
                ops.append(("delitem", key))
                for k in range(0, maxrep + 1):
                    for pl in new_items(mode, k):
                        ops.append(("setitem", key, pl))
    ops.append(("setitem", ["s", None, None, 0], [100]))
    ops.append(("delitem", ["s", None, None, 0]))
    # the list itself as the right-hand side; equal-but-other replacements
    ops += [("extend", "SELF"), ("iadd", "SELF")]
    if light:
        # (depth-2 menus stay small: menu size enters squared)
        ops.append(("setitem", ["s", None, None, None], "SELF"))
        return ops
    small = [None] + list(range(-(n + 1), n + 2))
    for st in small:
        for sp in small:
            for step_ in (None, -1, 2):
                key = ["s", st, sp, step_]
                ops.append(("setitem", key, "SELF"))
                if mode in ("id", "reject"):
                    ops.append(("setitem", key, "FLOATS"))
    return ops


def patterns(maxlen=4):
    """All duplicate patterns (restricted growth strings) and permutations."""
    out = []
    for n in range(1, maxlen + 1):
        seen = set()
        for t in itertools.product(range(n), repeat=n):
            # canonical restricted-growth form
            m, canon = {}, []
            for x in t:
                canon.append(m.setdefault(x, len(m)))
            canon = tuple(canon)
            if canon not in seen:
                seen.add(canon)
                out.append(list(canon))
        for p in itertools.permutations(range(n)):
            if list(p) not in out:
                out.append(list(p))
    return out


def shards(tier):
    maxn = 6 if tier == "quick" else 9
    out = []
    for mode in MODES:
        top = maxn if mode != "owner" else maxn - 2
        for n in range(top + 1):
            if n >= 5:
                for c in range(4):
                    out.append({"kind": "all", "mode": mode, "n": n,
                                "chunk": c, "of": 4})
            else:
                out.append({"kind": "all", "mode": mode, "n": n})
    out.append({"kind": "patterns"})
    for n in range(0, 4):
        out.append({"kind": "all", "mode": "reject", "n": n, "bare": True})
    for n in range(BOUNDS_B[0], BOUNDS_B[1] + 1):
        out.append({"kind": "all", "mode": "ownerb", "n": n})
    for mode in ("ownerp", "owners"):
        for n in range(0, 4 if tier == "quick" else 6):
            out.append({"kind": "all", "mode": mode, "n": n})
            if n < 2:
                out.append({"kind": "depth2", "mode": mode, "n": n,
                            "chunk": 0, "of": 1})
    d2 = 1 if tier == "quick" else 3
    for mode in MODES:
        for n in range(d2 + 1):
            if mode == "owner" and n > 0 and tier == "quick":
                continue
            of = 1 if n < 2 else (8 if tier == "quick" else 24) * (n - 1)
            for c in range(of):
                out.append({"kind": "depth2", "mode": mode, "n": n,
                            "chunk": c, "of": of})
    return out


class OwnerB(HasTraits):
    x = List(CInt, [0], minlen=BOUNDS_B[0], maxlen=BOUNDS_B[1])
    log = None

    def _x_items_changed(self, ev):
        self.log.append((ev.index, list(ev.removed), list(ev.added)))


class Owner(HasTraits):
    # one class for all executions: C05 never touches class-level state
    x = List(CInt)
    log = None

    def __len__(self):
        # a collection-like model: falsy while its list is empty
        return len(self.__dict__.get("x", ()))

    def _x_items_changed(self, ev):
        self.log.append((ev.index, list(ev.removed), list(ev.added)))


class OwnerP(HasTraits):
    x = Property(List(CInt))
    _kept = Any()
    log = None

    def _get_x(self):
        return self._kept

    def _set_x(self, value):
        self._kept = value

    def _x_items_changed(self, ev):
        self.log.append((ev.index, list(ev.removed), list(ev.added)))


class OwnerS(HasStrictTraits):
    x = Union(None, List(CInt))
    log = Any()


def fresh(mode, contents, bare=False):
    rec = Rec()
    rec.bare = bare
    if bare:
        # the rejecting validator and nobody listening at all
        return TraitList(contents, item_validator=validator(mode)), rec
    if mode == "owners":
        items = rec.extra["items"] = []
        owner = OwnerS()
        owner.on_trait_change(lambda ev: items.append(
            (ev.index, list(ev.removed), list(ev.added))), "x_items")
        owner.x = list(contents)
        rec.owner = owner
        owner.x.notifiers.append(rec)
        return owner.x, rec
    if mode in OWNERS:
        items = rec.extra["items"] = []

        owner = {"owner": Owner, "ownerb": OwnerB, "ownerp": OwnerP}[mode](
            x=list(contents))
        owner.log = items
        if mode != "ownerp":
            # (observers follow values kept in the instance dictionary; a
            #  property's value is not there)
            obs = rec.extra["observer"] = []
            owner.observe(lambda ev: obs.append(
                (ev.index, list(ev.removed), list(ev.added))), "x.items")
        rec.owner = owner
        owner.x.notifiers.append(rec)
        return owner.x, rec
    tl = TraitList(contents, item_validator=validator(mode), notifiers=[rec])
    return tl, rec


def run_shard(ctx, shard, tier):
    kind = shard["kind"]
    if kind == "all":
        mode, n = shard["mode"], shard["n"]
        bare = bool(shard.get("bare"))
        contents = list(range(n))
        ctx.state((mode, bare, contents))
        ops = ops_for(mode, n, tier, light=bare)
        ops = ops[shard.get("chunk", 0)::shard.get("of", 1)]
        for op in ops:
            ctx.case({"mode": mode, "before": contents, "ops": [op],
                      "bare": bare})
            ctx.ev()
            tl, rec = fresh(mode, contents, bare)
            ref = list(contents)
            step(ctx, mode, tl, rec, ref, op, "all")
            ctx.state((mode, ref))
        ctx.sample({"mode": mode, "before": contents, "op": ops[len(ops) // 2]})
    elif kind == "patterns":
        for contents in patterns():
            n = len(contents)
            for mode in ("id",):
                ctx.state((mode, contents))
                ops = [("remove", v) for v in range(n + 1)]
                ops += [("reverse",), ("sort", None, False),
                        ("sort", None, True), ("sort", "neg", False),
                        ("sort", "mod2", False), ("sort", "clash", False),
                        ("sort", "clash", True), ("clear",), ("imul", 2),
                        ("imul", 0), ("pop",)]
                ops += [("delitem", i) for i in range(-n, n)]
                ops += [("setitem", i, contents[0]) for i in range(-n, n)]
                ops += [("delitem", ["s", a, b, c]) for a in (None, 0, 1)
                        for b in (None, n, n - 1) for c in (1, 2, -1, -2)]
                ops += [("setitem", ["s", a, b, c], list(contents[::-1]))
                        for a in (None,) for b in (None,) for c in (1, -1)]
                for op in ops:
                    ctx.case({"mode": mode, "before": contents, "ops": [op]})
                    ctx.ev()
                    tl, rec = fresh(mode, contents)
                    ref = list(contents)
                    step(ctx, mode, tl, rec, ref, op, "patterns")
                    ctx.state((mode, ref))
    elif kind == "depth2":
        mode, n = shard["mode"], shard["n"]
        contents = list(range(n))
        ops1 = ops_for(mode, n, tier, light=True)
        ops1 = ops1[shard.get("chunk", 0)::shard.get("of", 1)]
        for op1 in ops1:
            # run op1 once to learn the length of the intermediate state
            tl, rec = fresh(mode, contents)
            try:
                do(tl, op1)
            except Exception:
                pass
            mid = len(tl)
            if mid > 5:
                continue
            for op2 in ops_for(mode, mid, tier, light=True):
                ctx.case({"mode": mode, "before": contents, "ops": [op1, op2]})
                ctx.ev()
                tl, rec = fresh(mode, contents)
                ref = list(contents)
                if not step(ctx, mode, tl, rec, ref, op1, "depth2"):
                    break
                step(ctx, mode, tl, rec, ref, op2, "depth2")
                ctx.state((mode, ref))
    ctx.depth_completed = 2 if kind == "depth2" else 1


def replay(rec):
    from mc.ctx import Ctx
    ctx = Ctx("C05", None, "quick", 0)
    case = rec["case"]
    mode = case["mode"]
    tl, r = fresh(mode, case["before"], case.get("bare", False))
    ref = list(case["before"])
    for op in case["ops"]:
        op = tuple(op)
        ok = step(ctx, mode, tl, r, ref, op, "replay")
        print("op", op, "->", list(tl), "events", [e[:3] for e in r.events])
    for v in ctx.violations.values():
        print("  violation:", v["sig"], v["msg"])
        print("  expected:", v["record"].get("expected"))
        print("  observed:", v["record"].get("observed"))
    return not ctx.violations
