"""C16 — legacy on_trait_change extended names agree with observe on unshared
(tree-shaped) graphs."""
import gc

from props import graphs as G

LEVEL = "model_checking"
RULE = ("per (legacy name, observe expression) pair: every history up to the "
        "depth bound over tree-preserving mutations (each insertion creates a"
        " fresh object) and removal of the registration; after every history"
        " the final attribute of every object ever created (attached or "
        "detached) is written; non-trivial = a probe or step for which a call"
        " is expected; distinct = distinct (pair, canonical tree + notifier "
        "state, event)")
EXPLANATION = ("direct exploration; reference = reachability interpreter "
               "shared with C08, plus differential agreement between the two "
               "APIs")
BOUNDS = {"quick": "7 name pairs x 3 handler-equality variants, depth 4 with "
                   "dedup, mutations on the first 3 created objects; "
                   "decorator-registered handlers with copy events: all "
                   "histories of length<=3 over 8 events; one ui-dispatch "
                   "worker-thread cell per name style",
          "thorough": "depth 5; decorated histories of length<=4"}
ASSUMPTIONS = ["graphs are trees (statement)", "4-argument handler signature",
               "in-place mutation of a '.' container link is neither required"
               " nor forbidden for the legacy handler"]
MIN_OUTCOMES = {t: ["leaf-called", "leaf-silent-detached", "link-reported",
                    "link-silent-colon", "after-removal-silent"]
                for t in ("quick", "thorough")}
TIMEOUT = {"quick": 1200, "thorough": 7200}

PAIRS = {
    "child.value": ("child.value", "child.value"),
    "child:value": ("child:value", "child:value"),
    "child.child.value": ("child.child.value", "child.child.value"),
    "kids.value": ("kids.value", "kids.items.value"),
    "kids:value": ("kids:value", "kids:items:value"),
    "child.kids.value": ("child.kids.value", "child.kids.items.value"),
    "kmap.value": ("kmap.value", "kmap.items.value"),
}
TARGETS = (0, 1, 2)


def menu(pair):
    names = pair.replace(":", ".").split(".")
    evs = []
    for n in TARGETS:
        if "child" in names:
            evs += [("child", n, "fresh"), ("child", n, None)]
        if "kids" in names:
            evs += [("kids_append", n), ("kids_insert0", n), ("kids_pop", n),
                    ("kids_setslice", n), ("kids_assign", n),
                    ("kids_del0", n), ("kids_reverse", n),
                    ("kids_reassign_tail", n)]
        if "kmap" in names:
            evs += [("kmap_set", n, "a"), ("kmap_set", n, "b"),
                    ("kmap_del", n, "a"), ("kmap_update2", n)]
    evs.append(("unregister",))
    evs.append(("gc_owner_b",))
    evs.append(("unregister_other",))
    return evs


class Owner:
    def __init__(self):
        self.calls = []

    def m(self, obj, name, old, new):
        self.calls.append((id(obj), name))


class World:
    def __init__(self, pair, eq=False, only_methods=False):
        self.pair = pair
        self.eq = eq
        self.only_methods = only_methods
        pool = G.make_pool(eq=eq)
        self.cls = type(pool[0])
        self.nodes = [pool[0]]
        self.legacy = []
        self.obs = []
        legacy, obs = self.legacy, self.obs
        self.owner_a = Owner()
        self.owner_b = Owner()
        self.equal_link = False

        def lh(obj, name, old, new):
            legacy.append((id(obj), name))

        def oh(event):
            obs.append((id(event.object), getattr(event, "name", None)))
        self.lh, self.oh = lh, oh
        self.root = self.nodes[0]
        if only_methods:
            # exactly two legacy handlers, both bound methods: the primary
            # log is owner A's
            self.legacy = self.owner_a.calls
        else:
            self.root.on_trait_change(lh, PAIRS[pair][0])
        self.root.on_trait_change(self.owner_a.m, PAIRS[pair][0])
        self.root.on_trait_change(self.owner_b.m, PAIRS[pair][0])
        self.root.observe(oh, PAIRS[pair][1])
        self.registered = True
        # an unrelated registration under a different extended name on the
        # same object; removing it must not disturb the others
        self.other_calls = []
        oc = self.other_calls

        def other(obj, name, old, new):
            oc.append(name)
        self.other = other
        self.root.on_trait_change(other, "lazy.tagged")
        self.other_registered = True

    def fresh(self):
        n = self.cls()
        n.nid = len(self.nodes)
        self.nodes.append(n)
        return n

    def clear(self):
        self.legacy.clear()
        self.obs.clear()
        self.owner_a.calls.clear()
        if self.owner_b is not None:
            self.owner_b.calls.clear()

    def methods_agree(self):
        """bound-method handlers must see what the function handler sees"""
        if self.owner_a.calls != self.legacy:
            return "handler of owner A got %r, function handler %r" % (
                self.owner_a.calls, self.legacy)
        if self.owner_b is not None and self.owner_b.calls != self.legacy:
            return "handler of owner B got %r, function handler %r" % (
                self.owner_b.calls, self.legacy)
        return None

    def watch(self):
        return G.watch(self.root, [G.P(PAIRS[self.pair][1])])


def enabled(w, ev):
    k = ev[0]
    if k == "unregister":
        return w.registered
    if k == "gc_owner_b":
        return w.owner_b is not None and w.registered
    if k == "unregister_other":
        return w.other_registered
    if ev[1] >= len(w.nodes):
        return False
    if len(w.nodes) > 7 and k not in ("kids_pop", "kids_del0", "kmap_del",
                                      "child") :
        return False
    o = w.nodes[ev[1]]
    d = o.__dict__
    if k == "child" and ev[2] is None:
        return d.get("child") is not None
    if k in ("kids_pop", "kids_del0"):
        return len(d.get("kids", ())) >= 1
    if k in ("kids_reverse", "kids_reassign_tail"):
        return len(d.get("kids", ())) >= 2
    if k == "kmap_del":
        return ev[2] in d.get("kmap", {})
    if k == "kmap_update2":
        return "a" in d.get("kmap", {}) and "b" not in d.get("kmap", {})
    return True


def apply(w, ev):
    """-> (kind, subject) where kind in link / container / none"""
    k = ev[0]
    if k == "unregister":
        if not w.only_methods:
            w.root.on_trait_change(w.lh, PAIRS[w.pair][0], remove=True)
        w.root.on_trait_change(w.owner_a.m, PAIRS[w.pair][0], remove=True)
        if w.owner_b is not None:
            w.root.on_trait_change(w.owner_b.m, PAIRS[w.pair][0],
                                   remove=True)
        w.root.observe(w.oh, PAIRS[w.pair][1], remove=True)
        w.registered = False
        return ("none", None)
    if k == "gc_owner_b":
        w.owner_b = None
        gc.collect()
        return ("none", None)
    if k == "unregister_other":
        w.root.on_trait_change(w.other, "lazy.tagged", remove=True)
        w.other_registered = False
        gc.collect()
        return ("none", None)
    o = w.nodes[ev[1]]
    if k == "child":
        old = o.__dict__.get("child")
        o.child = w.fresh() if ev[2] == "fresh" else None
        w.equal_link = w.eq and old is not None and ev[2] == "fresh"
        return ("link", (o, "child"))
    if k == "kids_reassign_tail":
        # a new list value that reuses current members
        o.kids = list(o.kids[1:])
        w.equal_link = False
        return ("link", (o, "kids"))
    if k == "kids_assign":
        old = o.__dict__.get("kids")
        o.kids = [w.fresh(), w.fresh()]
        w.equal_link = w.eq and old is not None and len(old) == 2
        return ("link", (o, "kids"))
    if k.startswith("kids_"):
        c = o.kids
        if k == "kids_append":
            c.append(w.fresh())
        elif k == "kids_insert0":
            c.insert(0, w.fresh())
        elif k == "kids_pop":
            c.pop()
        elif k == "kids_del0":
            del c[0]
        elif k == "kids_setslice":
            c[:] = [w.fresh()]
        elif k == "kids_reverse":
            c.reverse()
        return ("container", c)
    if k == "kmap_set":
        c = o.kmap
        c[ev[2]] = w.fresh()
        return ("container", c)
    if k == "kmap_del":
        c = o.kmap
        del c[ev[2]]
        return ("container", c)
    if k == "kmap_update2":
        c = o.kmap
        c.update({"a": w.fresh(), "b": w.fresh()})
        return ("container", c)
    raise AssertionError(ev)


def materialise(w, ev):
    if ev[0].startswith("kids_") and ev[0] != "kids_assign":
        w.nodes[ev[1]].kids
    elif ev[0].startswith("kmap_"):
        w.nodes[ev[1]].kmap


def tree_shape(w):
    def ix(x):
        for i, o in enumerate(w.nodes):
            if o is x:
                return i
        return -1
    out = []
    for o in w.nodes:
        d = o.__dict__
        out.append((ix(d["child"]) if d.get("child") is not None else None,
                    [ix(x) for x in d["kids"]] if "kids" in d else "unset",
                    sorted((k, ix(v)) for k, v in d["kmap"].items())
                    if "kmap" in d else "unset"))
    return out


def check_last(ctx, w, ev, hist):
    good = True

    def bad(kind, msg):
        nonlocal good
        good = False
        ctx.violation("C16:%s:%s:%s" % (kind, w.pair, ev[0]), msg,
                      pair=w.pair, history=hist, eq=w.eq,
                      legacy=repr(w.legacy), observe=repr(w.obs))
    materialise(w, ev)
    W = w.watch() if w.registered else set()
    w.clear()
    ctx.tr()
    kind, subject = apply(w, ev)
    err = w.methods_agree()
    if err:
        bad("methods-disagree", err)
    if kind == "link":
        o, name = subject
        watched = ("trait", id(o), name) in W
        # is the position on the path at all (possibly with ':')?
        if watched and w.equal_link:
            # the new value compares equal to the old one: under the
            # default comparison mode that is not a change to report
            pass
        elif watched:
            ctx.outcome("link-reported")
            ctx.nontriv((w.pair, "link", ev))
            if len(w.legacy) < 1:
                bad("link-not-reported", "reassigning %r.%s along a '.' link "
                    "did not call the legacy handler" % (o, name))
            if len(w.obs) != 1:
                bad("observe-link", "observe handler called %d times"
                    % len(w.obs))
        else:
            if w.legacy:
                bad("link-reported-colon", "reassigning %r.%s called the "
                    "legacy handler %d time(s) although the link is not a "
                    "notifying one (or not on the path)" % (
                        o, name, len(w.legacy)))
            elif w.registered:
                ctx.outcome("link-silent-colon")
            if w.obs:
                bad("observe-link", "observe handler called for a silent "
                    "link")
    elif kind == "container":
        watched = ("cont", id(subject)) in W
        if not watched and w.legacy:
            bad("container-reported-colon", "in-place mutation called the "
                "legacy handler although the link is not a notifying one")
        if len(w.obs) != (1 if watched else 0):
            bad("observe-container", "observe handler called %d times, "
                "expected %d" % (len(w.obs), 1 if watched else 0))
    else:
        if w.legacy or w.obs:
            bad("unregister-called", "removing the registration called a "
                "handler")
    return good


def probe(ctx, w, hist):
    good = True
    W = w.watch() if w.registered else set()
    for o in w.nodes:
        exp = 1 if ("trait", id(o), "value") in W else 0
        w.clear()
        ctx.tr()
        o.value += 1
        if exp:
            ctx.outcome("leaf-called")
            ctx.nontriv((w.pair, "leaf", tree_shape(w), o.nid))
        elif not w.registered:
            ctx.outcome("after-removal-silent")
        else:
            ctx.outcome("leaf-silent-detached")
        err = w.methods_agree()
        if err:
            good = False
            ctx.violation("C16:leaf-methods-disagree:%s" % w.pair,
                          "writing %r.value: %s" % (o, err), pair=w.pair,
                          history=hist, eq=w.eq)
        if len(w.legacy) != exp or len(w.obs) != exp:
            good = False
            ctx.violation(
                "C16:leaf-%s:%s" % (
                    "missed" if len(w.legacy) < exp else
                    ("stale" if len(w.legacy) > exp else "observe"), w.pair),
                "writing %r.value: legacy handler called %d, observe handler "
                "called %d, expected %d (%s)" % (
                    o, len(w.legacy), len(w.obs), exp,
                    "reachable" if exp else
                    ("unregistered" if not w.registered else "detached")),
                pair=w.pair, history=hist)
        elif exp and w.legacy[0] != (id(o), "value"):
            good = False
            ctx.violation("C16:leaf-event:%s" % w.pair,
                          "legacy handler got %r" % (w.legacy[0],),
                          pair=w.pair, history=hist)
    return good


def run_history(ctx, pair, hist, eq=False):
    # eq == 2: plain nodes, but only the two bound-method handlers
    w = World(pair, eq=(eq is True or eq == 1), only_methods=(eq == 2))
    for i, ev in enumerate(hist):
        if not enabled(w, ev):
            return None, None
        if i < len(hist) - 1:
            apply(w, ev)
        else:
            if not check_last(ctx, w, ev, hist):
                return False, None
    ok = probe(ctx, w, hist)
    key = (pair, eq, tree_shape(w), G.fingerprint(w.nodes), w.registered,
           w.owner_b is None, w.other_registered)
    return ok, key


# ---------------------------------------------------------------- decorated
# Handlers declared with the decorators on the class (they are part of every
# instance and must survive deepcopy / clone_traits); tree mutations and copy
# events; the legacy and the observe method must see the same calls.
import copy  # noqa: E402
import threading  # noqa: E402

from traits.api import (HasTraits, Instance, Int, List,  # noqa: E402
                        observe, on_trait_change)
from traits.trait_notifiers import set_ui_handler  # noqa: E402

DLOG = {}


class DNode(HasTraits):
    value = Int
    child = Instance(HasTraits)
    kids = List(Instance(HasTraits))

    @on_trait_change("kids.value")
    def _legacy_kids(self, obj, name, old, new):
        DLOG.setdefault(id(self), {"lk": 0, "ok": 0, "lc": 0, "oc": 0})[
            "lk"] += 1 if name == "value" else 0

    @observe("kids:items:value")
    def _observe_kids(self, event):
        DLOG.setdefault(id(self), {"lk": 0, "ok": 0, "lc": 0, "oc": 0})[
            "ok"] += 1

    @on_trait_change("child.value")
    def _legacy_child(self, obj, name, old, new):
        DLOG.setdefault(id(self), {"lk": 0, "ok": 0, "lc": 0, "oc": 0})[
            "lc"] += 1 if name == "value" else 0

    @observe("child:value")
    def _observe_child(self, event):
        DLOG.setdefault(id(self), {"lk": 0, "ok": 0, "lc": 0, "oc": 0})[
            "oc"] += 1


D_EVENTS = [("kids_append",), ("kids_pop",), ("kids_assign",), ("child_new",),
            ("child_none",), ("deepcopy",), ("clone",), ("child_kids_append",)]


def d_apply(nodes, ev):
    root = nodes[0]
    k = ev[0]
    if k == "kids_append":
        n = DNode()
        root.kids.append(n)
        nodes.append(n)
    elif k == "kids_pop":
        if root.kids:
            root.kids.pop()
    elif k == "kids_assign":
        a, b = DNode(), DNode()
        root.kids = [a, b]
        nodes += [a, b]
    elif k == "child_new":
        n = DNode()
        root.child = n
        nodes.append(n)
    elif k == "child_none":
        root.child = None
    elif k == "child_kids_append":
        if root.child is not None:
            n = DNode()
            root.child.kids.append(n)
            nodes.append(n)
    elif k == "deepcopy":
        nodes[:] = copy.deepcopy(nodes)
    elif k == "clone":
        # the root is cloned (deep), the history continues on the clone
        new_root = root.clone_traits(copy="deep")
        nodes[:] = [new_root] + list(new_root.kids) + \
            ([new_root.child] if new_root.child is not None else [])
    return nodes


def decorated(ctx, tier):
    depth = 3 if tier == "quick" else 4
    import itertools
    for n in range(0, depth + 1):
        for hist in itertools.product(D_EVENTS, repeat=n):
            ctx.case({"decorated": True, "history": [list(e) for e in hist]})
            ctx.ev()
            nodes = [DNode()]
            for ev in hist:
                d_apply(nodes, ev)
            root = nodes[0]
            kids = list(root.__dict__.get("kids", ()))
            child = root.__dict__.get("child")
            for node in list(nodes):
                DLOG.clear()
                ctx.tr()
                node.value += 1
                got = DLOG.get(id(root), {"lk": 0, "ok": 0, "lc": 0, "oc": 0})
                exp_k = 1 if any(node is x for x in kids) else 0
                exp_c = 1 if node is child else 0
                if (got["lk"], got["ok"], got["lc"], got["oc"]) != \
                        (exp_k, exp_k, exp_c, exp_c):
                    ctx.violation(
                        "C16:decorated:%s" % ("copy" if any(
                            e[0] in ("deepcopy", "clone") for e in hist)
                            else "plain"),
                        "decorator-registered handlers on the root: legacy "
                        "kids.value %d, observe %d (expected %d); legacy "
                        "child.value %d, observe %d (expected %d)" % (
                            got["lk"], got["ok"], exp_k, got["lc"],
                            got["oc"], exp_c),
                        history=[list(e) for e in hist])
                    break
                if exp_k or exp_c:
                    ctx.outcome("leaf-called")
            ctx.state(("decorated", hist))


def name_list_cells(ctx):
    """on_trait_change with a *list* of extended names is the same as one
    call per name: registered and removed in any grouping or order"""
    import itertools
    names = ["child:value", "kids:value"]
    forms = {"list": [names], "reversed": [names[::-1]],
             "singles": [[n] for n in names],
             "singles-reversed": [[n] for n in names[::-1]],
             "bare-singles": names}
    for add, rem in itertools.product(forms, repeat=2):
        ctx.case({"name_list": [add, rem]})
        ctx.ev()
        pool = G.make_pool()
        root, n1, n2 = pool
        root.child = n1
        root.kids = [n2]
        calls = []

        def h(obj, name, old, new):
            calls.append(name)
        for arg in forms[add]:
            root.on_trait_change(h, arg)
        good = True
        for o in (n1, n2):
            calls.clear()
            ctx.tr()
            o.value += 1
            if calls.count("value") != 1:
                good = False
                ctx.violation(
                    "C16:name-list:added-%s" % add,
                    "handler registered for %r (%s): changing a leaf gave %d "
                    "call(s), expected 1" % (names, add,
                                             calls.count("value")),
                    history=[["name_list", add, rem]])
        if not good:
            continue
        ctx.outcome("leaf-called")
        try:
            for arg in forms[rem]:
                root.on_trait_change(h, arg, remove=True)
        except Exception as exc:
            ctx.violation("C16:name-list:remove-raises",
                          "removal (%s after %s) raised %r" % (rem, add, exc),
                          history=[["name_list", add, rem]])
            continue
        n3 = type(root)()
        root.kids.append(n3)
        for o in (n1, n2, n3):
            calls.clear()
            ctx.tr()
            o.value += 1
            if calls:
                ctx.violation(
                    "C16:name-list:still-called",
                    "registered as %s, removed as %s: the handler is still "
                    "called (%r)" % (add, rem, calls),
                    history=[["name_list", add, rem]])
                break
        else:
            ctx.outcome("after-removal-silent")


def dict_name_cells(ctx):
    """Dict links whose trait name ends in letters of "_items" (parts, refs,
    times): all histories of length <= 3 over key insertion, replacement,
    deletion and a mixed update, fresh object per insertion; afterwards
    every object ever created is changed: both mechanisms call exactly for
    the objects the dict holds now"""
    import itertools
    from traits.api import Dict, HasTraits, Instance, Int, Str
    evs = [("set", "a"), ("set", "b"), ("del", "a"), ("update", "a", "c"),
           ("assign",)]
    for tname in ("parts", "refs", "times"):
        class Leaf(HasTraits):
            value = Int
        Holder = type("Holder", (HasTraits,),
                      {tname: Dict(Str, Instance(Leaf))})
        for n in (1, 2, 3):
            for hist in itertools.product(evs, repeat=n):
                ctx.case({"dict_name": tname,
                          "history": [list(e) for e in hist]})
                ctx.ev()
                root = Holder()
                made = []
                legacy, obs = [], []

                def hl(obj, name, old, new):
                    if name == "value":
                        legacy.append(obj)

                def ho(ev):
                    obs.append(ev.object)
                root.on_trait_change(hl, tname + ".value")
                root.observe(ho, tname + ":items:value")

                def new():
                    made.append(Leaf())
                    return made[-1]
                d = getattr(root, tname)
                try:
                    for ev in hist:
                        d = getattr(root, tname)
                        if ev[0] == "set":
                            d[ev[1]] = new()
                        elif ev[0] == "del":
                            d.pop(ev[1], None)
                        elif ev[0] == "update":
                            d.update({ev[1]: new(), ev[2]: new()})
                        else:
                            setattr(root, tname, {"a": new()})
                except Exception as exc:
                    ctx.violation("C16:dict-name:raises:%s" % tname,
                                  "raised %r" % (exc,),
                                  history=[list(e) for e in hist])
                    continue
                now = list(getattr(root, tname).values())
                for o in made:
                    legacy.clear()
                    obs.clear()
                    ctx.tr()
                    o.value += 1
                    exp = 1 if any(o is x for x in now) else 0
                    if (len(legacy), len(obs)) != (exp, exp):
                        ctx.violation(
                            "C16:dict-name:%s" % tname,
                            "Dict trait %r: after %r an object that is %s "
                            "the dict changed: legacy handler %d call(s), "
                            "observe %d, expected %d" % (
                                tname, hist, "in" if exp else "no longer in",
                                len(legacy), len(obs), exp),
                            history=[list(e) for e in hist])
                        break
                    ctx.outcome("leaf-called" if exp
                                else "leaf-silent-detached")
                ctx.state(("dict-name", tname, hist))


def remove_unregistered_cells(ctx):
    """remove=True for a handler that is not registered under the name (a
    clean-up run twice) must leave the handlers that are registered there
    alone"""
    for name in ("child.value", "child:value", "kids.value"):
        for when in ("never-registered", "removed-twice"):
            ctx.case({"remove_unregistered": name, "when": when})
            ctx.ev()
            pool = G.make_pool()
            root, n1, n2 = pool
            root.child = n1
            root.kids = [n1]
            calls = []

            def keep(obj, nm, old, new):
                if nm == "value":
                    calls.append(obj)

            def other(obj, nm, old, new):
                pass
            root.on_trait_change(keep, name)
            if when == "removed-twice":
                root.on_trait_change(other, name)
                root.on_trait_change(other, name, remove=True)
            try:
                root.on_trait_change(other, name, remove=True)
            except Exception:
                pass
            # the surviving handler still follows the graph
            root.child = n2
            root.kids = [n2]
            good = True
            for o, exp in ((n1, 0), (n2, 1)):
                calls.clear()
                ctx.tr()
                o.value += 1
                if len(calls) != exp:
                    good = False
                    ctx.violation(
                        "C16:remove-unregistered:%s" % when,
                        "%s: after a removal naming a handler that is not "
                        "registered, the registered handler got %d call(s) "
                        "for %s, expected %d" % (name, len(calls),
                                                 "the detached object"
                                                 if exp == 0 else
                                                 "the new object", exp),
                        history=[["remove_unregistered", name, when]])
                    break
            if not good:
                continue
            root.on_trait_change(keep, name, remove=True)
            calls.clear()
            n2.value += 1
            if calls:
                ctx.violation("C16:remove-unregistered:%s:not-removed" % when,
                              "the genuine removal left the handler hooked",
                              history=[["remove_unregistered", name, when]])
            else:
                ctx.outcome("after-removal-silent")


def signature_cells(ctx):
    """every supported handler signature (0..4 arguments) follows a
    re-assigned link the same way"""
    def mk(nargs, calls):
        if nargs == 0:
            def h():
                calls.append(1)
        elif nargs == 1:
            def h(new):
                calls.append(1)
        elif nargs == 2:
            def h(name, new):
                if name == "value":
                    calls.append(1)
        elif nargs == 3:
            def h(obj, name, new):
                if name == "value":
                    calls.append(1)
        else:
            def h(obj, name, old, new):
                if name == "value":
                    calls.append(1)
        return h
    for name in ("child.value", "child:value", "child.child.value"):
        for nargs in range(5):
            ctx.case({"signature": nargs, "name": name})
            ctx.ev()
            pool = G.make_pool()
            root, n1, n2 = pool
            extra = type(root)()
            n1.child = extra
            root.child = n1
            calls = []
            h = mk(nargs, calls)
            root.on_trait_change(h, name)
            root.child = n2             # n1 (and extra) are detached
            n2.child = type(root)()
            leafs = {"child.value": (n1, n2), "child:value": (n1, n2),
                     "child.child.value": (extra, n2.child)}[name]
            good = True
            for o, exp in zip(leafs, (0, 1)):
                calls.clear()
                ctx.tr()
                o.value += 1
                if len(calls) != exp:
                    good = False
                    ctx.violation(
                        "C16:signature:%d-args" % nargs,
                        "%s with a %d-argument handler: after the link was "
                        "re-assigned a change of the %s object gave %d "
                        "call(s), expected %d" % (
                            name, nargs, "detached" if exp == 0 else "new",
                            len(calls), exp),
                        history=[["signature", nargs, name]])
                    break
            if not good:
                continue
            root.on_trait_change(h, name, remove=True)
            calls.clear()
            for o in leafs:
                o.value += 1
            if calls:
                ctx.violation("C16:signature:%d-args:after-removal" % nargs,
                              "handler still called after removal",
                              history=[["signature", nargs, name]])
            else:
                ctx.outcome("after-removal-silent")


def shared_prefix_cells(ctx):
    """one handler registered under two names that share their first link;
    removing one registration leaves the other exactly as observe leaves its
    counterpart: link changes still reported, the new object followed"""
    for keep_name, drop_name in (("child.value", "child.tagged"),
                                 ("child.tagged", "child.value"),
                                 ("child.value", "child.child"),
                                 ("child.value", "child:tagged")):
        case = {"shared_prefix": keep_name, "dropped": drop_name}
        ctx.case(case)
        ctx.ev()
        ctx.tr()
        hist = [["shared_prefix", keep_name, drop_name]]
        pool = G.make_pool()
        root, n1, n2 = pool
        root.child = n1
        calls, ocalls = [], []

        def h(obj, nm, old, new):
            calls.append(nm)

        def oh(ev):
            ocalls.append(ev.name)
        root.on_trait_change(h, keep_name)
        root.on_trait_change(h, drop_name)
        root.observe(oh, keep_name)
        root.observe(oh, drop_name)
        root.on_trait_change(h, drop_name, remove=True)
        root.observe(oh, drop_name, remove=True)
        leaf = keep_name.split(".")[-1]
        root.child = n2
        if len(calls) != len(ocalls):
            ctx.violation(
                "C16:shared-prefix:link-report",
                "handler registered under %r and %r, the second registration "
                "removed: re-assigning the shared link called the handler "
                "%d time(s), observe's counterpart %d time(s)"
                % (keep_name, drop_name, len(calls), len(ocalls)),
                history=hist)
            continue
        for o, exp in ((n1, 0), (n2, 1)):
            calls.clear()
            setattr(o, leaf, getattr(o, leaf) + 1)
            if len(calls) != exp:
                ctx.violation(
                    "C16:shared-prefix:leaf",
                    "handler registered under %r and %r, the second "
                    "registration removed: changing %s of the %s object "
                    "gave %d call(s), expected %d" % (
                        keep_name, drop_name, leaf, "detached" if exp == 0
                        else "new", len(calls), exp), history=hist)
                break
        else:
            ctx.outcome("after-removal-silent")


def declared_cells(ctx):
    """handlers declared with the decorators on List / Set / Instance links:
    (a) removing the registration by name stops all calls, (b) a group in
    brackets followed by ':' stays silent for its links, (c) a subclass that
    overrides a decorated method with a plain one withdraws the registration -
    each exactly as the observe twin"""
    from traits.api import (HasTraits, Instance, Int, List, Set, observe,
                            on_trait_change)

    class Leaf(HasTraits):
        value = Int
        __hash__ = object.__hash__

    def mk(legacy_name, observe_name):
        class D(HasTraits):
            ref = Instance(Leaf)
            left = Instance(Leaf)
            kids = List(Instance(Leaf))
            bag = Set(Instance(Leaf))
            lcalls = List()
            ocalls = List()

            @on_trait_change(legacy_name)
            def _lh(self, obj, name, old, new):
                self.lcalls.append(name)

            @observe(observe_name)
            def _oh(self, event):
                self.ocalls.append(getattr(event, "name", "items"))
        return D

    def poke(d, leaves):
        del d.lcalls[:], d.ocalls[:]
        for x in leaves:
            x.value += 1
        return len(d.lcalls), len(d.ocalls)
    # (a) removal of a declared registration
    for lname, oname, fill in (
            ("kids:value", "kids:items:value",
             lambda d, xs: setattr(d, "kids", xs)),
            ("bag:value", "bag:items:value",
             lambda d, xs: setattr(d, "bag", set(xs))),
            ("ref:value", "ref:value",
             lambda d, xs: setattr(d, "ref", xs[0]))):
        for when in ("constructor", "later"):
            case = {"declared": "removal", "name": lname, "when": when}
            ctx.case(case)
            ctx.ev()
            ctx.tr()
            hist = [["declared-removal", lname, when]]
            D = mk(lname, oname)
            xs = [Leaf(), Leaf()]
            if when == "constructor":
                key = lname.split(":")[0]
                d = D(**{key: {"kids": xs, "bag": set(xs),
                               "ref": xs[0]}[key]})
            else:
                d = D()
                fill(d, xs)
            watched = xs[:1] if lname.startswith("ref") else xs
            got = poke(d, watched)
            if got[0] != got[1]:
                ctx.violation(
                    "C16:declared:calls", "declared %r (%s): %d legacy calls, "
                    "observe twin %d" % (lname, when, got[0], got[1]),
                    history=hist)
                continue
            d.on_trait_change(d._lh, lname, remove=True)
            d.observe(d._oh, oname, remove=True)
            got = poke(d, watched)
            if got != (0, 0):
                ctx.violation(
                    "C16:declared:after-removal", "declared %r (%s): after "
                    "the registration was removed by name the handler was "
                    "called %d time(s) (observe twin %d)" % (
                        lname, when, got[0], got[1]), history=hist)
            else:
                ctx.outcome("after-removal-silent")
    # (b) a bracketed group followed by ':'
    for lname, oname in (("[ref,left]:value", "[ref,left]:value"),
                         ("[ref,kids]:value", "[ref,kids:items]:value")):
        case = {"declared": "group-colon", "name": lname}
        ctx.case(case)
        ctx.ev()
        ctx.tr()
        hist = [["declared-group", lname]]
        d = mk(lname, oname)()
        errs = []
        try:
            d.ref = Leaf()
            d.left = Leaf()
            d.kids = [Leaf()]
            d.kids.append(Leaf())
        except Exception as exc:
            errs.append(repr(exc))
        if errs or len(d.lcalls) != len(d.ocalls):
            ctx.violation(
                "C16:declared:group-colon", "%r: re-assigning / mutating the "
                "grouped links gave %d legacy call(s) %r%s, observe twin %d"
                % (lname, len(d.lcalls), list(d.lcalls),
                   " and raised %s" % errs if errs else "", len(d.ocalls)),
                history=hist)
            continue
        got = poke(d, [d.ref, d.left] + (list(d.kids) if "kids" in lname
                                         else []))
        if got[0] != got[1]:
            ctx.violation("C16:declared:group-leaf", "%r: %d legacy calls "
                          "for the leaves, observe twin %d" % (
                              lname, got[0], got[1]), history=hist)
        else:
            ctx.outcome("link-silent-colon")
    # (c) decorated method overridden by a plain one in a subclass
    case = {"declared": "override"}
    ctx.case(case)
    ctx.ev()
    ctx.tr()
    Base = mk("ref.value, kids.value", "ref.value, kids.items.value")

    class Quiet(Base):
        def _lh(self, obj, name, old, new):
            self.lcalls.append("override")

        def _oh(self, event):
            self.ocalls.append("override")
    q = Quiet()
    q.ref = Leaf()
    q.kids = [Leaf()]
    got = poke(q, [q.ref] + list(q.kids))
    if got[0] != got[1]:
        ctx.violation(
            "C16:declared:override", "a subclass overrides the decorated "
            "handlers with plain methods: the legacy one was called %d "
            "time(s), the observe twin %d" % got,
            history=[["declared-override"]])
    else:
        ctx.outcome("after-removal-silent")


def link_report_cells(ctx):
    """a re-assigned '.' link is itself reported, once, to a handler of
    every signature - from None as well as from another object - exactly
    where observe reports it; a ':' link is not; and names are the same
    names with blanks around them"""
    def mk(nargs, calls):
        if nargs == 0:
            def h():
                calls.append("?")
        elif nargs == 1:
            def h(new):
                calls.append("?")
        elif nargs == 2:
            def h(name, new):
                calls.append(name)
        elif nargs == 3:
            def h(obj, name, new):
                calls.append(name)
        else:
            def h(obj, name, old, new):
                calls.append(name)
        return h
    for name in ("child.value", "child:value", " child.value", "child.value ",
                 " child:value "):
        for nargs in range(5):
            for start in ("none", "object"):
                case = {"link_report": nargs, "name": name, "start": start}
                ctx.case(case)
                ctx.ev()
                pool = G.make_pool()
                root, n1, n2 = pool
                if start == "object":
                    root.child = n2
                calls, ocalls = [], []
                h = mk(nargs, calls)

                def oh(ev):
                    ocalls.append(ev.name)
                root.on_trait_change(h, name)
                root.observe(oh, name.strip())
                hist = [["link_report", nargs, name, start]]
                for new in (n1, None, n2, n1):
                    calls.clear()
                    ocalls.clear()
                    ctx.tr()
                    root.child = new
                    want = len(ocalls)
                    if want != (1 if "." in name else 0):
                        ctx.violation("C16:link-report:observe", "observe "
                                      "reported the link change %d times"
                                      % want, history=hist)
                    if nargs in (1, 2) and new is None:
                        # these signatures report the *destination's* new
                        # value; without a destination there is none
                        continue
                    if len(calls) != want:
                        ctx.violation(
                            "C16:link-report:%d-args:%s" % (nargs, start),
                            "%r with a %d-argument handler: re-assigning "
                            "the link to %s called the handler %d time(s), "
                            "observe reports it %d time(s)" % (
                                name, nargs, "None" if new is None else
                                "an object", len(calls), want), history=hist)
                        break
                    if want:
                        ctx.outcome("link-reported")
                else:
                    root.on_trait_change(h, name, remove=True)
                    root.observe(oh, name.strip(), remove=True)
                    calls.clear()
                    root.child = n2
                    n2.value += 1
                    if calls:
                        ctx.violation(
                            "C16:link-report:%d-args:after-removal" % nargs,
                            "%r: handler still called (%r) after its removal "
                            "under the same name" % (name, calls),
                            history=hist)
                    else:
                        ctx.outcome("after-removal-silent")


UI_Q = []


def ui_threaded(ctx):
    """on_trait_change(..., dispatch='ui') with a queueing UI handler; the
    list is mutated from a worker thread: re-hooking happens at once, only
    the user's handler is queued"""
    set_ui_handler(lambda handler, *a, **k: UI_Q.append((handler, a, k)))
    for first in ("kids.value", "kids:value"):
        ctx.case({"ui_threaded": first})
        ctx.ev()
        ctx.tr()
        pool = G.make_pool()
        root = pool[0]
        calls = []

        def h(obj, name, old, new):
            calls.append(name)
        root.on_trait_change(h, first, dispatch="ui")

        def work():
            n = type(root)()
            root.kids.append(n)
            n.value += 1            # appended, then changed at once
            root.kids.remove(n)
            n.value += 1            # removed, then changed
        t = threading.Thread(target=work)
        t.start()
        t.join()
        while UI_Q:
            handler, a, k = UI_Q.pop(0)
            handler(*a, **k)
        got = calls.count("value")
        if got != 1:
            ctx.violation("C16:ui-threaded:%s" % first,
                          "a child appended and changed from a worker "
                          "thread, then removed and changed: the ui-"
                          "dispatched handler got %d 'value' calls, expected "
                          "1 (%r)" % (got, calls), history=[["ui", first]])
        else:
            ctx.outcome("leaf-called")


def shards(tier):
    out = [{"pair": "__decorated__"}, {"pair": "__ui_threaded__"},
           {"pair": "__name_list__"}, {"pair": "__dict_name__"},
           {"pair": "__remove_unregistered__"}, {"pair": "__signature__"}]
    for pair in PAIRS:
        n = len(menu(pair))
        for i in range(n):
            out.append({"pair": pair, "first": i, "eq": False})
            out.append({"pair": pair, "first": i, "eq": True})
            out.append({"pair": pair, "first": i, "eq": 2})
    return out


def run_shard(ctx, shard, tier):
    pair = shard["pair"]
    if pair == "__decorated__":
        decorated(ctx, tier)
        ctx.depth_completed = 3
        return
    if pair == "__ui_threaded__":
        ui_threaded(ctx)
        ctx.depth_completed = 1
        return
    if pair == "__name_list__":
        name_list_cells(ctx)
        ctx.depth_completed = 2
        return
    if pair == "__dict_name__":
        dict_name_cells(ctx)
        ctx.depth_completed = 3
        return
    if pair == "__remove_unregistered__":
        remove_unregistered_cells(ctx)
        ctx.depth_completed = 1
        return
    if pair == "__signature__":
        signature_cells(ctx)
        link_report_cells(ctx)
        shared_prefix_cells(ctx)
        declared_cells(ctx)
        ctx.depth_completed = 1
        return
    evs = menu(pair)
    depth = 4 if tier == "quick" else 5
    frontier = [[]]
    n_exec = 0
    for d in range(1, depth + 1):
        nxt = []
        for hist in frontier:
            for ev in ([evs[shard["first"]]] if d == 1 else evs):
                h2 = hist + [ev]
                ctx.case({"pair": pair, "history": h2, "eq": shard["eq"]})
                ok, key = run_history(ctx, pair, h2, eq=shard["eq"])
                if ok is None:
                    continue
                ctx.ev()
                n_exec += 1
                if n_exec % 1000 == 0:
                    gc.collect()
                if ok and ctx.state(key):
                    nxt.append(h2)
        frontier = nxt
    if shard["first"] == 0:
        ctx.case({"pair": pair, "history": []})
        run_history(ctx, pair, [])
        ctx.ev()
    ctx.depth_completed = depth
    ctx.sample({"pair": pair, "history": frontier[0] if frontier
                else [evs[shard["first"]]]})


def replay(rec):
    from mc.ctx import Ctx
    ctx = Ctx("C16", None, "quick", 0)
    c = rec.get("case") or rec
    if "declared" in c:
        declared_cells(ctx)
        for v in ctx.violations.values():
            print("  violation:", v["sig"], v["msg"])
        return not ctx.violations
    if "shared_prefix" in c:
        shared_prefix_cells(ctx)
        for v in ctx.violations.values():
            print("  violation:", v["sig"], v["msg"])
        return not ctx.violations
    if "link_report" in c:
        link_report_cells(ctx)
        for v in ctx.violations.values():
            print("  violation:", v["sig"], v["msg"])
        return not ctx.violations
    if "signature" in c:
        signature_cells(ctx)
        for v in ctx.violations.values():
            print("  violation:", v["sig"], v["msg"])
        return not ctx.violations
    if c.get("dict_name") or c.get("remove_unregistered"):
        (dict_name_cells if c.get("dict_name")
         else remove_unregistered_cells)(ctx)
        for v in ctx.violations.values():
            print("  violation:", v["sig"], v["msg"])
        return not ctx.violations
    if c.get("name_list"):
        name_list_cells(ctx)
        for v in ctx.violations.values():
            print("  violation:", v["sig"], v["msg"])
        return not ctx.violations
    if c.get("decorated") or c.get("ui_threaded"):
        decorated(ctx, "quick") if c.get("decorated") else ui_threaded(ctx)
        for v in ctx.violations.values():
            print("  violation:", v["sig"], v["msg"])
        return not ctx.violations
    hist = [tuple(e) for e in c["history"]]
    run_history(ctx, c["pair"], hist, eq=c.get("eq", False))
    print("pair", c["pair"], "history", hist)
    for v in ctx.violations.values():
        print("  violation:", v["sig"], v["msg"])
    return not ctx.violations
