"""Shared object-graph driver for C08 / C09 / C12 / C16: a pool of Node objects,
a menu of graph-mutation events, a from-scratch interpreter of observe
expressions over the object graph, and the notifier fingerprint."""
from traits.api import (Any, Dict, HasTraits, Instance, Int, List, Property,
                        Set, Str, cached_property)
from traits.trait_dict_object import TraitDict
from traits.trait_list_object import TraitList
from traits.trait_set_object import TraitSet

NPOOL = 3


class _Konst(HasTraits):
    value = Int
    tagged = Int(tag=True)
    nid = Int(900)

    def __repr__(self):
        return "K"


#: traits whose value is not kept under their own name in the instance
#: dictionary: a cached property that returns another trait's value
ALIAS = {"plink": "child"}


def make_node_class(eq=False, falsy=False, prop=False):
    class Node(HasTraits):
        value = Int
        tagged = Int(tag=True)
        child = Instance(HasTraits, link=True)
        lazy = Instance(HasTraits)
        kids = List(Instance(HasTraits), coll=True)
        rows = List(List(Instance(HasTraits)))
        kmap = Dict(Str, Instance(HasTraits), coll=True)
        kset = Set(Instance(HasTraits))
        nid = Int(-1)
        #: a constant default that is itself an observable object (one
        #: object for all instances of the class)
        konst = Any(_Konst())

        def _lazy_default(self):
            n = type(self)()
            n.nid = 100 + self.nid
            self.made_lazy = n
            return n

        def __repr__(self):
            return "N%d" % self.nid
    if prop:
        # a link that is a cached property (its value is never in the
        # instance dictionary under its own name)
        class Node(Node):
            plink = Property(Instance(HasTraits), observe="child")

            @cached_property
            def _get_plink(self):
                return self.child
    if eq == "raises":
        # a value-based __eq__ that assumes the other operand's type
        def _eq(self, other):
            if other is self:
                return True
            raise AttributeError("'%s' object has no attribute 'key'"
                                 % type(other).__name__)
        Node.__eq__ = _eq
        Node.__hash__ = object.__hash__
    elif eq:
        Node._all_equal = True
        # all nodes compare equal (value-based __eq__ on HasTraits classes
        # is common); identity is what observation must go by
        Node.__eq__ = lambda self, other: isinstance(other, Node)
        Node.__hash__ = lambda self: 7
    if falsy:
        # collection-like models are falsy when empty; observation must
        # never go by truthiness
        Node.__len__ = lambda self: 0
    return Node


_SHARED = None


_SHARED_EQ = None
_SHARED_FALSY = None
_SHARED_RAISES = None
_SHARED_PROP = None


def make_pool(fresh_class=False, eq=False):
    global _SHARED, _SHARED_EQ, _SHARED_FALSY, _SHARED_RAISES, _SHARED_PROP
    if eq == "prop":
        if _SHARED_PROP is None:
            _SHARED_PROP = make_node_class(prop=True)
        cls = _SHARED_PROP
    elif eq == "raises":
        if _SHARED_RAISES is None:
            _SHARED_RAISES = make_node_class(eq="raises")
        cls = _SHARED_RAISES
    elif eq == "falsy":
        if _SHARED_FALSY is None:
            _SHARED_FALSY = make_node_class(falsy=True)
        cls = _SHARED_FALSY
    elif eq:
        if _SHARED_EQ is None:
            _SHARED_EQ = make_node_class(eq=True)
        cls = _SHARED_EQ
    elif fresh_class:
        cls = make_node_class()
    else:
        if _SHARED is None:
            _SHARED = make_node_class()
        cls = _SHARED
    pool = [cls() for _ in range(NPOOL)]
    for i, n in enumerate(pool):
        n.nid = i
    return pool


# ------------------------------------------------------------------ events
def all_objects(pool):
    """pool objects plus materialised lazy defaults"""
    out = list(pool)
    for p in pool:
        lz = p.__dict__.get("lazy")
        if lz is not None and all(lz is not o for o in out):
            out.append(lz)
    for p in pool:
        kz = p.__dict__.get("konst")
        if kz is not None and all(kz is not o for o in out):
            out.append(kz)
    return out


def enabled(pool, ev):
    """Is the event enabled (= a real change) in the current state?"""
    k = ev[0]
    o = pool[ev[1]]
    d = o.__dict__
    if k == "child":
        new = None if ev[2] is None else pool[ev[2]]
        return d.get("child") is not new
    if k == "lazy":
        new = None if ev[2] is None else pool[ev[2]]
        return "lazy" in d and d.get("lazy") is not new
    if k == "del_child":
        return d.get("child") is not None
    if k == "del_kids":
        return len(d.get("kids", ())) >= 1
    if k == "read_lazy":
        return "lazy" not in d
    if k == "read_konst":
        return "konst" not in d
    if k == "konst":
        new = None if ev[2] is None else pool[ev[2]]
        return "konst" in d and d.get("konst") is not new
    if k == "read_kids":
        return "kids" not in d
    if k in ("kids_pop", "kids_del_ext", "kids_mul", "kids_reverse"):
        return len(d.get("kids", ())) >= (2 if k == "kids_reverse" else 1)
    if k == "kids_remove":
        return any(x is pool[ev[2]] for x in d.get("kids", ()))
    if k == "kids_assign_eq":
        return True
    if k == "kmap_del":
        return ev[2] in d.get("kmap", {})
    if k == "kmap_set":
        return d.get("kmap", {}).get(ev[2]) is not pool[ev[3]]
    if k == "kset_add":
        return pool[ev[2]] not in d.get("kset", ())
    if k == "kset_discard":
        return pool[ev[2]] in d.get("kset", ())
    if k == "rows_inner_append":
        return len(d.get("rows", ())) >= 1
    if k == "rows_pop":
        return len(d.get("rows", ())) >= 1
    if k == "readd_child":
        return not d.get("_readded")
    if k == "add_trait":
        return "extra" not in o._instance_traits()
    if k == "add_link_trait":
        return "xlink" not in o._instance_traits()
    if k == "xlink":
        new = None if ev[2] is None else pool[ev[2]]
        return "xlink" in o._instance_traits() and \
            d.get("xlink") is not new
    if k == "kids_dup_slice":
        return len(d.get("kids", ())) >= 1
    return True


def prepare(pool, ev):
    """Materialise the container an event is going to mutate (a first read
    is an event of its own kind: it hooks the container but notifies
    nobody), so that the watch set can be computed on the real pre-state."""
    k = ev[0]
    o = pool[ev[1]]
    if k.startswith("rows_") and k != "rows_assign":
        o.rows
    if k.startswith("kids_") and k not in ("kids_assign", "kids_assign_eq"):
        o.kids
    elif k.startswith("kmap_"):
        o.kmap
    elif k.startswith("kset_"):
        o.kset


def has_cycle(pool):
    """Is some object reachable from itself through child links?"""
    for o in all_objects(pool):
        seen, cur = 0, o.__dict__.get("child")
        while cur is not None and seen < 8:
            if cur is o:
                return True
            cur = cur.__dict__.get("child")
            seen += 1
    return False


def apply(pool, ev):
    """Perform the event on the real objects. Returns the *subject* of the
    change: ("trait", obj, name) or ("cont", container) and whether contents
    compare equal (suppresses notification of a notifying trait link)."""
    k = ev[0]
    o = pool[ev[1]]
    if k == "child":
        old = o.__dict__.get("child")
        o.child = None if ev[2] is None else pool[ev[2]]
        # a notifying link whose old and new objects compare equal changes
        # what is reachable but is not reported as a change
        return ("trait", o, "child"), (
            old is not None and ev[2] is not None
            and getattr(type(o), "_all_equal", False))
    if k == "lazy":
        o.lazy = None if ev[2] is None else pool[ev[2]]
        return ("trait", o, "lazy"), False
    if k == "del_child":
        del o.child
        return ("del", o, "child"), False
    if k == "del_kids":
        del o.kids
        return ("del", o, "kids"), False
    if k == "read_lazy":
        o.lazy
        return ("read", o, "lazy"), False
    if k == "read_konst":
        o.konst
        return ("read", o, "konst"), False
    if k == "konst":
        o.konst = None if ev[2] is None else pool[ev[2]]
        return ("trait", o, "konst"), False
    if k == "read_kids":
        o.kids
        return ("read", o, "kids"), False
    if k == "kids_append":
        c = o.kids
        c.append(pool[ev[2]])
        return ("cont", c), False
    if k == "kids_insert0":
        c = o.kids
        c.insert(0, pool[ev[2]])
        return ("cont", c), False
    if k == "kids_pop":
        c = o.kids
        c.pop()
        return ("cont", c), False
    if k == "kids_remove":
        c = o.kids
        c.remove(pool[ev[2]])
        return ("cont", c), False
    if k == "kids_setslice":
        c = o.kids
        same = list(c) == [pool[ev[2]]]
        c[:] = [pool[ev[2]]]
        return ("cont", c), False
    if k == "kids_del_ext":
        c = o.kids
        del c[::2]
        return ("cont", c), False
    if k == "kids_mul":
        c = o.kids
        c *= 2
        return ("cont", c), False
    if k == "kids_reverse":
        c = o.kids
        c.reverse()
        return ("cont", c), False
    if k == "kids_assign_eq":
        old = o.__dict__.get("kids")
        o.kids = list(old) if old is not None else []
        return ("trait", o, "kids"), True
    if k == "kids_assign2":
        old = o.__dict__.get("kids")
        new = [pool[ev[2]], pool[ev[2]]]
        eq = old is not None and len(old) == 2 and \
            all(x is pool[ev[2]] for x in old)
        o.kids = new
        return ("trait", o, "kids"), eq
    if k == "kids_assign":
        old = o.__dict__.get("kids")
        new = [pool[ev[2]]]
        eq = old is not None and list(old) == new
        o.kids = new
        return ("trait", o, "kids"), eq
    if k == "kmap_set":
        c = o.kmap
        c[ev[2]] = pool[ev[3]]
        return ("cont", c), False
    if k == "kmap_del":
        c = o.kmap
        del c[ev[2]]
        return ("cont", c), False
    if k == "kset_add":
        c = o.kset
        c.add(pool[ev[2]])
        return ("cont", c), False
    if k == "kset_discard":
        c = o.kset
        c.discard(pool[ev[2]])
        return ("cont", c), False
    if k == "rows_append_empty":
        c = o.rows
        c.append([])
        return ("cont", c), False
    if k == "rows_append_row":
        c = o.rows
        c.append([pool[ev[2]]])
        return ("cont", c), False
    if k == "rows_inner_append":
        c = o.rows[0]
        c.append(pool[ev[2]])
        return ("cont", c), False
    if k == "rows_pop":
        c = o.rows
        c.pop()
        return ("cont", c), False
    if k == "rows_assign":
        old = o.__dict__.get("rows")
        eq = old is not None and len(old) == 2 and list(old[0]) == [] and \
            len(old[1]) == 1 and old[1][0] is pool[ev[2]]
        o.rows = [[], [pool[ev[2]]]]
        return ("trait", o, "rows"), eq
    if k == "readd_child":
        # re-define an existing (possibly observed) trait on the instance
        o.add_trait("child", Instance(HasTraits, link=True))
        o.__dict__["_readded"] = True
        return ("add_trait", o, "child"), False
    if k == "add_trait":
        o.add_trait("extra", Int(tag=True))
        return ("add_trait", o, "extra"), False
    if k == "add_link_trait":
        o.add_trait("xlink", Instance(HasTraits, link=True))
        return ("add_trait", o, "xlink"), False
    if k == "xlink":
        o.xlink = None if ev[2] is None else pool[ev[2]]
        return ("trait", o, "xlink"), False
    if k == "kids_dup_slice":
        c = o.kids
        c[0:1] = [pool[ev[2]], pool[ev[2]]]
        return ("cont", c), False
    raise AssertionError(ev)


def event_menu(names, idx=(0, 1)):
    """Events touching the given trait names, on objects idx (values range
    over the whole pool)."""
    evs = []
    allp = list(range(NPOOL))
    for i in idx:
        if "child" in names:
            evs += [("child", i, j) for j in allp + [None]]
        if "del" in names and "child" in names:
            evs += [("del_child", i)]
        if "del" in names and "kids" in names:
            evs += [("del_kids", i)]
        if "lazy" in names:
            evs += [("read_lazy", i)] + [("lazy", i, j) for j in allp + [None]]
        if "konst" in names:
            evs += [("read_konst", i)] + [("konst", i, j)
                                          for j in allp + [None]]
        if "kids" in names:
            evs += [("kids_append", i, j) for j in allp]
            evs += [("kids_insert0", i, j) for j in allp]
            evs += [("kids_remove", i, j) for j in allp]
            evs += [("kids_setslice", i, j) for j in allp[:2]]
            evs += [("kids_assign", i, j) for j in allp[:2]]
            evs += [("kids_assign2", i, j) for j in allp[1:2]]
            evs += [("kids_pop", i), ("kids_del_ext", i), ("kids_mul", i),
                    ("kids_assign_eq", i), ("kids_reverse", i)]
            evs += [("kids_dup_slice", i, j) for j in allp[:2]]
        if "kmap" in names:
            evs += [("kmap_set", i, key, j) for key in ("a", "b")
                    for j in allp]
            evs += [("kmap_del", i, key) for key in ("a", "b")]
        if "kset" in names:
            evs += [("kset_add", i, j) for j in allp]
            evs += [("kset_discard", i, j) for j in allp]
        if "rows" in names:
            evs += [("rows_append_empty", i)]
            evs += [("rows_append_row", i, j) for j in allp[:2]]
            evs += [("rows_inner_append", i, j) for j in allp]
            evs += [("rows_pop", i), ("rows_assign", i, 1)]
        if "readd" in names:
            evs += [("readd_child", i)]
        if "extra" in names:
            evs += [("add_trait", i)]
        if "xlink" in names:
            evs += [("add_link_trait", i)]
            evs += [("xlink", i, j) for j in allp + [None]]
    return evs


# ------------------------------------------------- expression interpreter
# An expression is a list of paths; a path is a list of steps:
#   ("t", name, notify) | ("items", notify) | ("meta", notify) | ("any", notify)
def P(text):
    """tiny path notation: 'child.kids:items.value' (no brackets)"""
    steps = []
    tok = ""
    parts = []
    for ch in text:
        if ch in ".:":
            parts.append((tok, ch == "."))
            tok = ""
        else:
            tok += ch
    parts.append((tok, True))
    for name, notify in parts:
        if name == "items":
            steps.append(("items", notify))
        elif name.startswith("+"):
            steps.append(("meta", name[1:], notify))
        elif name == "*":
            steps.append(("any", notify))
        else:
            steps.append(("t", name, notify))
    return steps


def trait_names_matching(obj, step):
    if step[0] == "t":
        return [step[1]] if obj._trait(step[1], 0) is not None else []
    names = list(obj.trait_names())
    if step[0] == "meta":
        return [n for n in names
                if getattr(obj.trait(n), step[1], None) is not None]
    return names


def watch(root, paths):
    """Set of watched positions ("trait", id(obj), name) / ("cont", id(c))
    according to the documented semantics, on the *current* graph, reading
    __dict__ only (never materialising defaults)."""
    W = set()
    keep = []

    def walk(obj, steps):
        if not steps:
            return
        step, rest = steps[0], steps[1:]
        notify = step[-1] or not rest
        if step[0] == "items":
            if isinstance(obj, (TraitList, TraitDict, TraitSet)):
                if notify:
                    W.add(("cont", id(obj)))
                    keep.append(obj)
                if isinstance(obj, TraitDict):
                    nxt = list(obj.values())
                else:
                    nxt = list(obj)
                for x in nxt:
                    walk(x, rest)
                return
            if isinstance(obj, HasTraits) and \
                    obj._trait("items", 0) is not None:
                step = ("t", "items", step[-1])
            else:
                return
        if not isinstance(obj, HasTraits):
            return
        for name in trait_names_matching(obj, step):
            if notify:
                W.add(("trait", id(obj), name))
                keep.append(obj)
            if rest:
                val = obj.__dict__.get(ALIAS.get(name, name))
                if val is not None:
                    walk(val, rest)
    for p in paths:
        walk(root, p)
    return W


# ------------------------------------------------------------ fingerprints
def notifier_fp(n):
    return (type(n).__name__, getattr(n, "_ref_count", None))


def fingerprint(objs):
    """Notifier populations (kind, ref-count) of every object, every
    effective trait and every materialised container."""
    out = []
    for o in objs:
        ent = [sorted(notifier_fp(n) for n in (o._notifiers(False) or []))]
        names = sorted(set(o.trait_names()) | set(o._instance_traits()))
        for name in names:
            t = o._trait(name, 0)
            if t is None:
                continue
            ns = t._notifiers(False) or []
            if ns:
                ent.append((name, sorted(notifier_fp(n) for n in ns)))
        for cname in ("kids", "kmap", "kset", "rows"):
            c = o.__dict__.get(cname)
            if c is not None:
                ent.append((cname + "#", sorted(notifier_fp(n)
                                                for n in c.notifiers)))
                if cname == "rows":
                    for row in c:
                        ent.append(("row#", sorted(notifier_fp(n)
                                                   for n in row.notifiers)))
        out.append(ent)
    return out


def shape(pool):
    """Canonical graph shape (indices into all_objects)."""
    objs = all_objects(pool)

    def ix(x):
        for i, o in enumerate(objs):
            if o is x:
                return i
        return -1
    out = []
    for o in objs:
        d = o.__dict__
        out.append((
            ix(d["child"]) if d.get("child") is not None else None,
            ("unset" if "lazy" not in d else
             (ix(d["lazy"]) if d["lazy"] is not None else None)),
            [ix(x) for x in d["kids"]] if "kids" in d else "unset",
            sorted((k, ix(v)) for k, v in d["kmap"].items())
            if "kmap" in d else "unset",
            sorted(ix(x) for x in d["kset"]) if "kset" in d else "unset",
            "extra" in o._instance_traits(),
            [[ix(x) for x in row] for row in d["rows"]]
            if "rows" in d else "unset",
            bool(d.get("_readded")),
            ("none" if "xlink" not in o._instance_traits() else
             (ix(d["xlink"]) if d.get("xlink") is not None else None)),
            ("unset" if "konst" not in d else
             (ix(d["konst"]) if d["konst"] is not None else None)),
        ))
    return out
