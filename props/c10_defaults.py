"""C10 — defaults are per-instance, computed once, silent; instances isolated."""
import gc
import warnings

import numpy as np

from traits.api import (Any, Array, Dict, Enum, HasTraits, Instance, Int, List,
                        Map, Range, Set, Str, Trait, TraitType, Tuple, Union)

LEVEL = "model_checking"
RULE = ("every history up to the depth bound over operations on one instance "
        "(read / in-place mutation of default containers / assign / del / "
        "handler add+remove / add_trait / remove_trait / trait_set / "
        "reset_traits / introspection calls) of a class with one trait per "
        "default kind and a subclass overriding defaults; after every "
        "history sibling instances (created before and after) and the "
        "classes are compared with a pristine baseline; non-trivial = a "
        "history that changed the acting instance's state; distinct = "
        "distinct (actor class, canonical instance state, event)")
EXPLANATION = ("direct exploration with fresh classes per execution; "
               "reference = pristine baseline computed in a separate fresh "
               "class hierarchy + identity walk for sharing")
BOUNDS = {"quick": "depth 2 exhaustive over ~115 events (19 default kinds), depth 3 from the "
                   "deduplicated frontier over a 40-event sub-menu; two focus groups of interdependent traits at depth 4",
          "thorough": "depth 3 over the full menu with dedup; focus groups at depth 5"}
ASSUMPTIONS = ["default kinds 'object' and 'disallow' not crossed"]
MIN_OUTCOMES = {t: ["default-read", "siblings-checked", "dyn-default-once",
                    "class-definitions-checked", "del-then-read"]
                for t in ("quick", "thorough")}
TIMEOUT = {"quick": 1200, "thorough": 7200}

NAMES = ["c", "al", "ad", "l", "d", "s", "inst", "dyn", "tl", "tls", "u",
         "arr", "fl", "bg", "border", "frame", "mp", "bag", "pick", "lo",
         "dv", "rng", "ud"]
#: property-style trait types keep their value under another __dict__ key
STORE = {"bag": "_traits_cache_bag", "pick": "_traits_cache_pick",
         "rng": "_traits_cache_rng"}


def skey(n):
    return STORE.get(n, n)

#: expectations that do not come from the implementation
DECLARED = {"bg": "red", "border": "blue", "frame": "red", "mp": "a",
            "bag": [], "pick": "b"}
CONTAINERS = {"al": "list", "ad": "dict", "l": "list", "d": "dict",
              "s": "set", "dyn": "list", "u": "list", "fl": "list",
              "ud": "list",
              "bag": "list"}


class Bag(TraitType):
    """get/set based trait type caching its value with the documented
    get_value / set_value helpers"""
    default_value = []

    def get(self, obj, name):
        return self.get_value(obj, name)

    def set(self, obj, name, value):
        self.set_value(obj, name, list(value))



def make_classes():
    with warnings.catch_warnings():
        warnings.simplefilter("ignore")

        class A(HasTraits):
            pass

        #: ONE trait definition object used for several attributes and in
        #: two classes
        Shade = Trait("red", "green", "blue")

        class Other(HasTraits):
            shade = Shade

        class K(HasTraits):
            bg = Shade
            border = Shade
            frame = Shade
            mp = Map({"a": 1, "b": 2})
            bag = Bag()
            #: a Range whose bounds and default are named by other traits;
            #: its number type follows the bounds of the *instance*
            lo = Any(0)
            hi = Any(10)
            dv = Any(2)
            rng = Range(low="lo", high="hi", value="dv")
            choices = List(Str, value=["a", "b", "c"])
            pick = Enum(values="choices")

            def _pick_default(self):
                cnt = self.__dict__.setdefault("_pick_runs", [0])
                cnt[0] += 1
                return "b"

            def _border_default(self):
                return "blue"

            def _mp_default(self):
                cnt = self.__dict__.setdefault("_mp_runs", [0])
                cnt[0] += 1
                return "a"

            c = Int(3)
            al = Any([])
            ad = Any({})
            l = List(Int, [1, 2])
            d = Dict(Str, Int)
            s = Set(Int)
            inst = Instance(A, ())
            dyn = Any
            tl = Tuple(List(Int), Int)
            tls = Tuple(List(Int), Str)
            u = Union(List(Int), None)
            #: a Union with an explicit mutable default
            ud = Union(List(Int), Str, default_value=[1, 2])
            arr = Array
            fl = Any(factory=list)

            def _dyn_default(self):
                cnt = self.__dict__.setdefault("_dyn_runs", [0])
                cnt[0] += 1
                return [0]

            def _anytrait_changed(self, name, old, new):
                log = self.__dict__.setdefault("_log", [])
                if name in NAMES or name in ("zz",):
                    log.append((name, id(new)))

        class KS(K):
            c = 5
            l = [9]
            al = [7]
            fl = Any(factory=list)

            def _dyn_default(self):
                cnt = self.__dict__.setdefault("_dyn_runs", [0])
                cnt[0] += 1
                return [1]
    K.Other = Other
    return A, K, KS


def plain(v):
    if isinstance(v, np.ndarray):
        return ("array", v.tolist())
    if isinstance(v, (list, tuple)):
        return [plain(x) for x in v]
    if isinstance(v, dict):
        return {k: plain(x) for k, x in v.items()}
    if isinstance(v, (set, frozenset)):
        return sorted(v)
    if isinstance(v, HasTraits):
        return "<%s>" % type(v).__name__
    if isinstance(v, float):
        return ("float", v)         # 2.0 is not the declared default 2
    return v


_BASE = None


def baseline():
    """{class name: {trait: plain default}} from a pristine hierarchy"""
    global _BASE
    if _BASE is None:
        A, K, KS = make_classes()
        _BASE = {"K": {n: plain(getattr(K(), n)) for n in NAMES},
                 "KS": {n: plain(getattr(KS(), n)) for n in NAMES},
                 "names_K": sorted(K.class_trait_names()),
                 "names_KS": sorted(KS.class_trait_names()),
                 "dv": {c.__name__: {n: repr(c.class_traits()[n]
                                           .default_value()[0])
                                     for n in NAMES} for c in (K, KS)}}
    return _BASE


#: names that also get handler add/remove events (handler registration
#: clones the class trait into an instance trait)
HANDLER_NAMES = ("c", "al", "l", "d", "dyn", "tl", "mp", "border")


def events():
    evs = []
    for n in NAMES:
        evs += [("read", n), ("assign", n), ("del", n)]
        if n in HANDLER_NAMES:
            evs += [("otc_add", n), ("otc_remove", n), ("obs_add", n),
                    ("obs_remove", n)]
        if n in CONTAINERS or n in ("tl", "tls"):
            evs.append(("mutate", n))
    evs += [("add_trait", "c"), ("add_trait", "l"), ("add_trait", "zz"),
            ("remove_trait", "c"), ("remove_trait", "l"),
            ("remove_trait", "zz"), ("trait_set",), ("reset_traits",),
            ("traits_call",), ("trait_get",), ("trait_names",),
            ("clone",), ("copy_from_sibling",), ("copy_to_fresh",)]
    return evs


SUBMENU_NAMES = ("l", "dyn", "tls")


def submenu():
    return [e for e in events() if len(e) < 2 or e[1] in SUBMENU_NAMES
            or e[0] in ("add_trait", "remove_trait")]


VALID = {"c": 11, "al": [5], "ad": {"k": 1}, "l": [4], "d": {"k": 2},
         "s": {6}, "dyn": [8], "tl": ([3], 3), "tls": ([3], "q"), "u": [2],
         "fl": [1], "bg": "green", "border": "green", "mp": "b",
         "bag": [3], "pick": "c", "lo": 0.5, "rng": 3, "dv": 4,
         "ud": [9]}


class World:
    def __init__(self, actor_cls):
        self.A, self.K, self.KS = make_classes()
        self.cls = self.K if actor_cls == "K" else self.KS
        self.a = self.cls()
        self.sibs = [("K", self.K()), ("KS", self.KS())]
        if actor_cls == "K":
            # an int-bounded instance reads its Range before anything else
            # happens (for actor KS the acting instance may be the first)
            self.sibs[0][1].rng
        self.handlers = {}
        self.reported = {}       # name -> id of default reported at del time
        #: name -> default seen at the first read (until the name is
        #: assigned, deleted or its trait replaced)
        self.first_default = {}
        self.dels = 0
        self.sib_calls = []
        sc = self.sib_calls
        for _, sb in self.sibs:
            sb.on_trait_change(lambda: sc.append("otc"), "l")
            sb.observe(lambda ev: sc.append("obs"), "l")
            sb.observe(lambda ev: sc.append("obs"), "al")
        self.base_ids = {c.__name__: {n: id(t) for n, t in
                                      c.__base_traits__.items()}
                         for c in (self.K, self.KS)}

    def h(self, n, kind):
        key = (n, kind)
        if key not in self.handlers:
            log = []

            def f(*args):
                log.append(1)
            f.log = log
            self.handlers[key] = f
        return self.handlers[key]


def enabled(w, ev):
    k = ev[0]
    a = w.a
    if k == "mutate":
        return True
    if k in ("otc_remove", "obs_remove"):
        return (ev[1], k[:3]) in w.handlers and \
            getattr(w.handlers[(ev[1], k[:3])], "on", False)
    if k in ("otc_add", "obs_add"):
        f = w.handlers.get((ev[1], k[:3]))
        return not (f is not None and getattr(f, "on", False))
    if k == "remove_trait":
        return ev[1] in a._instance_traits() and (
            ev[1] == "zz" or getattr(w, "added_" + ev[1], False))
    if k == "add_trait":
        return not getattr(w, "added_" + ev[1], False)
    if k == "assign":
        return ev[1] in VALID
    if k == "del":
        return ev[1] in a.__dict__
    return True


def apply(ctx, w, ev, hist, check):
    """Perform the event on the acting instance. With check=True the
    first-read clauses are verified."""
    k = ev[0]
    a = w.a
    good = True

    def bad(kind, msg):
        nonlocal good
        good = False
        ctx.violation("C10:%s:%s:%s" % (kind, ev[0],
                                        ev[1] if len(ev) > 1 else ""),
                      msg, history=hist, actor=w.cls.__name__)
    if k in ("read", "mutate"):
        n = ev[1]
        first = skey(n) not in a.__dict__
        log = a.__dict__.setdefault("_log", [])
        nlog = len(log)
        hcalls = sum(len(f.log) for f in w.handlers.values())
        v = getattr(a, n)
        if check and n in w.first_default:
            # (by the model's own book-keeping, not by what the object
            #  happens to have stored)
            f0 = w.first_default[n]
            same = (v is f0) or (n == "rng" and v == f0)
            if not same:
                bad("default-recomputed", "%s was never assigned since its "
                    "default was first read as %r; it now reads %r"
                    % (n, f0, v))
        if first:
            w.first_default.setdefault(n, v)
        if check and first and good:
            ctx.outcome("default-read")
            if len(log) != nlog or \
                    sum(len(f.log) for f in w.handlers.values()) != hcalls:
                bad("default-read-notified", "first read of %s called a "
                    "handler" % n)
            v2 = getattr(a, n)
            if v2 is not v and not (n == "rng" and type(v2) is type(v)
                                    and v2 == v):
                # (the dynamic Range computes its number on every read)
                bad("second-read-differs", "second read of %s returned a "
                    "different object" % n)
            has_it = n in a._instance_traits() and \
                getattr(w, "added_" + n, False)
            if not has_it:
                want = baseline()[w.cls.__name__][n]
                if n == "rng" and "dv" in a.__dict__:
                    want = plain(a.__dict__["dv"])    # the named default
                if n == "rng" and isinstance(a.__dict__.get("lo"), float):
                    want = plain(float(want))   # float bounds, float values
                if plain(v) != want:
                    bad("wrong-default", "first read of %s gives %r, "
                        "declared default %r" % (n, plain(v), want))
            if n in w.reported:
                if w.reported[n] != id(v):
                    bad("reported-default-not-read", "the default object "
                        "reported to handlers when %s was deleted is not "
                        "the object read afterwards" % n)
        if k == "mutate":
            c = v
            if n in ("tl", "tls"):
                c = v[0]
            if isinstance(c, list):
                c.append(77)
            elif isinstance(c, dict):
                c["m"] = 77
            elif isinstance(c, set):
                c.add(77)
    elif k == "assign":
        setattr(a, ev[1], VALID[ev[1]])
        w.reported.pop(ev[1], None)
        w.first_default.pop(ev[1], None)
    elif k == "del":
        log = a.__dict__.setdefault("_log", [])
        n0 = len(log)
        delattr(a, ev[1])
        w.dels += 1
        w.reported.pop(ev[1], None)
        w.first_default.pop(ev[1], None)
        new = [x for x in log[n0:] if x[0] == ev[1]]
        if new:
            ctx.outcome("del-then-read")
        if new and ev[1] not in a.__dict__:
            # a default was reported but nothing stored: the next read must
            # not produce a different object (checked at the read)
            w.reported[ev[1]] = new[-1][1]
        elif new and ev[1] in a.__dict__:
            if id(a.__dict__[ev[1]]) != new[-1][1]:
                bad("reported-default-not-stored", "handlers were told a "
                    "different default object than the one stored")
    elif k == "otc_add":
        f = w.h(ev[1], "otc")
        a.on_trait_change(f, ev[1])
        f.on = True
    elif k == "otc_remove":
        f = w.h(ev[1], "otc")
        a.on_trait_change(f, ev[1], remove=True)
        f.on = False
    elif k == "obs_add":
        f = w.h(ev[1], "obs")
        a.observe(f, ev[1])
        f.on = True
    elif k == "obs_remove":
        f = w.h(ev[1], "obs")
        a.observe(f, ev[1], remove=True)
        f.on = False
    elif k == "add_trait":
        n = ev[1]
        a.add_trait(n, {"c": Int(7), "l": List(Int, [5]),
                        "zz": List(Str)}[n])
        setattr(w, "added_" + n, True)
        w.first_default.pop(n, None)
    elif k == "remove_trait":
        a.remove_trait(ev[1])
        setattr(w, "added_" + ev[1], False)
        w.first_default.pop(ev[1], None)
    elif k == "trait_set":
        a.trait_set(c=12, l=[6])
        w.first_default.pop("c", None)
        w.first_default.pop("l", None)
    elif k == "reset_traits":
        a.reset_traits()
        w.dels += len(NAMES)
        w.first_default.clear()
    elif k == "traits_call":
        a.traits()
    elif k == "trait_get":
        a.trait_get()
    elif k == "trait_names":
        a.trait_names()
        a.copyable_trait_names()
    elif k == "clone":
        a.clone_traits()
    elif k == "copy_from_sibling":
        # takes the sibling's values; the sibling must stay as it is
        a.copy_traits(w.sibs[0][1] if isinstance(a, type(w.sibs[0][1]))
                      else w.sibs[1][1], traits=["l", "d"])
        w.first_default.pop("l", None)
        w.first_default.pop("d", None)
    elif k == "copy_to_fresh":
        type(a)().copy_traits(a)
    return good


def containers_of(obj):
    """ids of all mutable containers reachable from obj's stored values"""
    out = {}

    def walk(v, where):
        if isinstance(v, (list, dict, set, np.ndarray)):
            out[id(v)] = where
        if isinstance(v, (list, tuple)):
            for x in v:
                walk(x, where)
        elif isinstance(v, dict):
            for x in v.values():
                walk(x, where)
    for n in NAMES:
        if skey(n) in obj.__dict__:
            walk(obj.__dict__[skey(n)], n)
    return out


def final_check(ctx, w, hist):
    good = True

    def bad(kind, msg):
        nonlocal good
        if not ctx.violation("C10:%s" % kind, msg, history=hist,
                             actor=w.cls.__name__):
            good = False
    base = baseline()
    late = [("K", w.K()), ("KS", w.KS())]
    objs = [("actor", w.a)]
    for cname, o in w.sibs + late:
        ctx.tr()
        for n in NAMES:
            log = o.__dict__.setdefault("_log", [])
            n0 = len(log)
            v = getattr(o, n)
            if plain(v) != base[cname][n]:
                bad("sibling-value:%s:%s" % (cname, n),
                    "sibling %s instance reads %s = %r, pristine default is "
                    "%r" % (cname, n, plain(v), base[cname][n]))
            if getattr(o, n) is not v:
                bad("sibling-second-read:%s" % n, "second read differs")
            if len(log) != n0:
                bad("sibling-default-notified:%s" % n, "first read on a "
                    "sibling called its _anytrait_changed")
        runs = o.__dict__.get("_dyn_runs", [0])[0]
        if runs > 1:
            bad("dyn-default-twice", "_dyn_default ran %d times on a "
                "sibling" % runs)
        objs.append((cname, o))
        for n, want in DECLARED.items():
            if getattr(o, n) != want:
                bad("declared-default:%s" % n, "%s instance reads %s = %r, "
                    "declared default is %r" % (cname, n, getattr(o, n),
                                                want))
        mruns = o.__dict__.get("_mp_runs", [0])[0]
        if mruns > 1:
            bad("map-default-twice", "_mp_default ran %d times on a sibling"
                % mruns)
    other = w.K.Other()
    if other.shade != "red":
        bad("shared-definition-object", "another class using the same trait "
            "definition object reads %r, declared default is 'red'"
            % (other.shade,))
    for cname, o in [("acting", w.a)] + w.sibs + late:
        pruns = o.__dict__.get("_pick_runs", [0])[0]
        if pruns > 1:
            bad("pick-default-twice", "_pick_default (dynamic Enum) ran %d "
                "times on the %s instance" % (pruns, cname))
    mruns = w.a.__dict__.get("_mp_runs", [0])[0]
    if mruns > 1 + w.dels:
        bad("map-default-twice", "_mp_default ran %d times on the acting "
            "instance (%d deletions)" % (mruns, w.dels))
    ctx.outcome("siblings-checked")
    if w.sib_calls:
        bad("sibling-handler-called", "handlers registered on sibling "
            "instances were called: %r" % w.sib_calls[:4])
    # the acting instance's own dynamic default
    runs = w.a.__dict__.get("_dyn_runs", [0])[0]
    ctx.outcome("dyn-default-once")
    if runs > 1 + w.dels:
        bad("dyn-default-twice", "_dyn_default ran %d times on the acting "
            "instance (%d deletions)" % (runs, w.dels))
    # instance traits added to two instances under the same name must stay
    # separate definitions: handlers of one never hear about the other
    if getattr(w, "added_zz", False):
        sib = w.K()
        sib.add_trait("zz", List(Str))
        sib_log, act_log = [], []
        sib.on_trait_change(lambda: sib_log.append(1), "zz_items")
        sib.on_trait_change(lambda: sib_log.append(1), "zz")
        w.a.on_trait_change(lambda: act_log.append(1), "zz_items")
        ctx.tr()
        try:
            w.a.zz.append("q")
            if sib_log:
                bad("instance-trait-shared", "mutating the acting "
                    "instance's added list trait called a handler "
                    "registered on another instance's trait of that name")
            n = len(act_log)
            sib.zz.append("r")
            sib.zz = ["s"]
            if len(act_log) != n:
                bad("instance-trait-shared", "changing another instance's "
                    "added trait called the acting instance's handler")
            if list(w.a.zz)[-1:] != ["q"]:
                bad("instance-trait-shared", "values of added traits mixed")
        except Exception as exc:
            bad("instance-trait-probe-raises", "probe raised %r" % (exc,))
    # no container shared between instances
    seen = {}
    for label, o in objs:
        for cid, where in containers_of(o).items():
            if cid in seen and seen[cid][0] is not o:
                bad("shared-container:%s:%s" % (where, type(o).__name__),
                    "the %s value of two instances is (or contains) the "
                    "same mutable object" % where)
            seen[cid] = (o, where)
    # class-level definitions
    ctx.outcome("class-definitions-checked")
    for c in (w.K, w.KS):
        cn = c.__name__
        if sorted(c.class_trait_names()) != base["names_" + cn]:
            bad("class-trait-names:%s" % cn, "class_trait_names changed: %r"
                % sorted(set(c.class_trait_names()) ^
                         set(base["names_" + cn])))
        now = {n: id(t) for n, t in c.__base_traits__.items()}
        if now != w.base_ids[cn]:
            bad("base-traits:%s" % cn, "the class's trait table changed "
                "(names %r)" % sorted(set(now) ^ set(w.base_ids[cn]) or
                                      [n for n in now
                                       if now[n] != w.base_ids[cn].get(n)]))
        for n in NAMES:
            dv = repr(c.class_traits()[n].default_value()[0])
            if dv != base["dv"][cn][n]:
                bad("class-default:%s:%s" % (cn, n), "class-level default "
                    "of %s changed" % n)
    return good


def canon(w):
    a = w.a
    st = []
    for n in NAMES:
        st.append((n, plain(a.__dict__[skey(n)]) if skey(n) in a.__dict__
                   else "unset"))
    return (w.cls.__name__, st, sorted(a._instance_traits()),
            sorted(k for k, f in w.handlers.items()
                   if getattr(f, "on", False)),
            sorted(w.reported),
            # the model's own book-keeping is state as well: which defaults
            # have been read (on correct code the stored value says so too)
            sorted((n, repr(plain(v))) for n, v in w.first_default.items()))


def run_history(ctx, actor, hist):
    w = World(actor)
    for i, ev in enumerate(hist):
        if not enabled(w, ev):
            return None, None
        try:
            ok = apply(ctx, w, ev, hist, check=(i == len(hist) - 1))
        except Exception as exc:
            ctx.violation("C10:event-raises:%s" % ev[0],
                          "event raised %r" % (exc,), history=hist,
                          actor=actor)
            return False, None
        if not ok:
            return False, None
    key = canon(w)
    ok = final_check(ctx, w, hist)
    return ok, key


def failing_first_read_cells(ctx):
    """The announcement of a freshly computed default fails (an observer
    cannot follow the new object): whatever the first read does, the default
    method has run once and every read that succeeds returns that object"""
    from traits.api import HasTraits as _HT, Instance as _Inst
    for mech in ("observe-missing-trait", "plain"):
        ctx.case({"cell": "failing-first-read", "mech": mech})
        ctx.ev()
        ctx.tr()
        runs = []

        class Plain(_HT):
            pass

        class H(_HT):
            child = _Inst(_HT)

            def _child_default(self):
                runs.append(1)
                return Plain()
        h = H()
        if mech == "observe-missing-trait":
            h.observe(lambda ev: None, "child.value")
        got = []
        for _ in range(4):
            try:
                got.append(h.child)
            except Exception:
                pass
        if len(runs) > 1 or len({id(x) for x in got}) > 1 or not got:
            ctx.violation(
                "C10:failing-first-read:%s" % mech,
                "four reads of a trait whose default announcement %s: "
                "_child_default ran %d time(s), %d read(s) succeeded and "
                "returned %d distinct object(s)" % (
                    "fails" if mech != "plain" else "succeeds", len(runs),
                    len(got), len({id(x) for x in got})),
                history=[["cell", "failing-first-read", mech]], actor="K")
        else:
            ctx.outcome("dyn-default-once")


def shards(tier):
    evs = events()
    return [{"actor": "cells", "first": -1}] + \
        [{"actor": actor, "first": i}
         for actor in ("K", "KS") for i in range(len(evs))] + \
        [{"actor": actor, "first": -2, "focus": list(f)}
         for actor in ("K", "KS") for f in FOCUS]


#: small groups of traits that depend on each other, explored on their own
#: one level deeper than the full menu (every history over the group's events)
FOCUS = [("rng", "dv", "lo"), ("pick", "mp", "bag")]


def run_shard(ctx, shard, tier):
    actor = shard["actor"]
    if actor == "cells":
        failing_first_read_cells(ctx)
        ctx.depth_completed = 1
        return
    evs = events()
    sub = submenu() if tier == "quick" else evs
    depth = 3
    focus = shard.get("focus")
    if focus:
        fm = [e for e in evs if len(e) > 1 and e[1] in focus] + \
            [("reset_traits",), ("clone",)]
        depth = 4 if tier == "quick" else 5
    frontier = [[]]
    n_exec = 0
    for d in range(1, depth + 1):
        nxt = []
        menu = [evs[shard["first"]]] if d == 1 else (evs if d == 2 else sub)
        if focus:
            menu = fm
        for hist in frontier:
            for ev in menu:
                h2 = hist + [ev]
                ctx.case({"actor": actor, "history": h2})
                ok, key = run_history(ctx, actor, h2)
                if ok is None:
                    continue
                ctx.ev()
                if key is not None:
                    ctx.nontriv((actor, key[1], ev))
                n_exec += 1
                if n_exec % 200 == 0:
                    gc.collect()
                if ok and ctx.state(key):
                    nxt.append(h2)
        frontier = nxt
    ctx.depth_completed = depth
    ctx.sample({"actor": actor, "history": frontier[0] if frontier
                else [evs[max(shard["first"], 0)]]})


def replay(rec):
    from mc.ctx import Ctx
    ctx = Ctx("C10", None, "quick", 0)
    c = rec.get("case") or rec
    if c.get("cell"):
        failing_first_read_cells(ctx)
        for v in ctx.violations.values():
            print("  violation:", v["sig"], v["msg"])
        return not ctx.violations
    hist = [tuple(e) for e in c["history"]]
    run_history(ctx, c["actor"], hist)
    print("actor", c["actor"], "history", hist)
    for v in ctx.violations.values():
        print("  violation:", v["sig"], v["msg"])
    return not ctx.violations
