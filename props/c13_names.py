"""C13 — every attribute name is governed by the right trait and policy.

Differential oracle: for a name governed (according to an independent
resolver: instance trait > declared class trait > longest matching wildcard >
class default) by a wildcard trait, a twin hierarchy declares that trait
*explicitly* under the name; the same history of get/set/del/add_trait/
remove_trait must give the same outcome classes and values on both.  The
explicit policy clauses of the statement are checked directly.
"""
import gc

from traits.api import (Any, Constant, Event, HasPrivateTraits,
                        HasStrictTraits, HasTraits, Int, List, Map, Property, ReadOnly,
                        Str,
                        TraitError, Undefined)

LEVEL = "model_checking"
RULE = ("per (base class kind, attribute name): every history up to the depth"
        " bound over get/set(int)/set(str)/del/add_trait/remove_trait on an "
        "instance of the base class and of a subclass, with *definition of "
        "the subclass* as an event; each step is compared with the twin "
        "hierarchy and with the explicit policy clauses; non-trivial = step "
        "on a name governed by a wildcard, an instance trait or a "
        "restrictive policy; distinct = distinct (kind, name, model state, "
        "event)")
EXPLANATION = ("direct exploration with fresh classes per execution; "
               "reference = independent resolver + twin hierarchy with the "
               "governing trait declared explicitly + policy clauses")
BOUNDS = {"quick": "3 base kinds x 15 names, 34 events, three instances (base, late "
                   "subclass, multiple-inheritance subclass), depth 3 with "
                   "dedup", "thorough": "depth 5 (level 5 over 31 of the 34 events)"}
ASSUMPTIONS = ["dunder names are reserved by documented design and kept out "
               "of the alphabet", "wildcard prefixes as the code documents "
               "them: 'x_ = T' declares prefix 'x'"]
MIN_OUTCOMES = {t: ["wildcard-governed", "instance-trait-governed",
                    "strict-rejected", "readonly-second-write",
                    "constant-write", "event-read", "class-rule-restored",
                    "subclass-defined-late", "private-any"]
                for t in ("quick", "thorough")}
TIMEOUT = {"quick": 1200, "thorough": 7200}

KINDS = {"HasTraits": HasTraits, "HasStrictTraits": HasStrictTraits,
         "HasPrivateTraits": HasPrivateTraits}
FACT = {"Int": lambda: Int(1), "Str": lambda: Str("s"),
        "ReadOnly": lambda: ReadOnly, "Constant": lambda: Constant(9),
        "Event": lambda: Event, "IntW": lambda: Int, "StrW": lambda: Str}

# declarations: name -> factory label; names ending in "_" are wildcards
BASE_DECL = {"i": "Int", "ro": "ReadOnly", "k": "Constant", "e": "Event",
             "x_": "IntW", "_p_": "StrW"}
SUB_DECL = {"x_l_": "StrW", "i": "Str"}
#: a second base contributing wildcards to a subclass that declares none
MIXIN_DECL = {"n_": "IntW", "name_": "StrW"}
NAMES = ["i", "ro", "k", "e", "x", "xa", "x_a", "x_l", "x_lq", "_pq", "_p",
         "_q", "zzz", "name_first", "nq"]


def build(kind, extra_base=None, extra_sub=None, with_sub=True,
          extra_mi=None):
    ns = {n: FACT[f]() for n, f in BASE_DECL.items()}
    ns.update({n: FACT[f]() for n, f in (extra_base or {}).items()})
    Base = type("Base", (KINDS[kind],), ns)

    def mk_sub():
        ns2 = {n: FACT[f]() for n, f in SUB_DECL.items()}
        ns2.update({n: FACT[f]() for n, f in (extra_sub or {}).items()})
        return type("Sub", (Base,), ns2)
    # multiple inheritance: the wildcards come from the second base only
    Mixin = type("Mixin", (KINDS[kind],),
                 {n: FACT[f]() for n, f in MIXIN_DECL.items()})
    build.last_mi = type("SubMI", (Base, Mixin),
                         {n: FACT[f]() for n, f in (extra_mi or {}).items()})
    return Base, mk_sub


def resolve(decls_chain, name):
    """decls_chain: list of declaration dicts, most derived first.
    -> (how, factory label) with how in explicit / wildcard / default"""
    merged = {}
    for d in reversed(decls_chain):
        merged.update(d)
    if name in merged and not name.endswith("_"):
        return "explicit", merged[name]
    best = None
    for n, f in merged.items():
        if n.endswith("_"):
            prefix = n[:-1]
            if name.startswith(prefix) and (best is None
                                            or len(prefix) > len(best[0])):
                best = (prefix, f)
    if best is not None:
        return "wildcard", best[1]
    return "default", None


EXPL = {"IntW": "Int0", "StrW": "Str0"}
FACT["Int0"] = lambda: Int
FACT["Str0"] = lambda: Str


def events():
    evs = []
    for who in ("b", "s", "m"):
        evs += [("get", who), ("set", who, 5), ("set", who, "v"),
                ("set", who, None),
                ("del", who), ("add_trait", who), ("remove_trait", who)]
    evs += [("add_trait2", "b"), ("add_trait2", "m")]
    # an instance List trait brings a companion "<name>_items" event trait;
    # removing the List trait removes the companion too
    evs += [("add_trait_list", "b"), ("get_items", "b"), ("set_items", "b")]
    # ... and a mapped instance trait a shadow "<name>_"
    evs += [("add_trait_map", "b"), ("get_shadow", "b"), ("set_shadow", "b")]
    # ... and a definition without a handler object (a read-only, untyped
    # Property)
    evs += [("add_trait_prop", "b"), ("add_trait_prop", "m")]
    # the base class gains a wildcard its (already defined) subclass
    # declares itself: the subclass's own rule stays
    evs.append(("base_adds_wildcard",))
    # the base class gains a *mapped* trait "zz" (its shadow is "zz_"): names
    # that merely start with "zz" stay under their own rule
    evs.append(("base_adds_map",))
    evs.append(("define_sub",))
    return evs


def _forty_two(self):
    return 42


class Side:
    """one hierarchy (real or twin) with its two instances"""

    def __init__(self, kind, name, twin):
        self.kind, self.name, self.twin = kind, name, twin
        eb = es = None
        if twin:
            hb, fb = resolve([BASE_DECL], name)
            hs, fs = resolve([SUB_DECL, BASE_DECL], name)
            hm, fm = resolve([BASE_DECL, MIXIN_DECL], name)
            eb = {name: EXPL[fb]} if hb == "wildcard" else None
            em = {name: EXPL[fm]} if hm == "wildcard" and \
                (hb, fb) != (hm, fm) else None
            if hs == "wildcard" and (hb, fb) != (hs, fs):
                es = {name: EXPL[fs]}
            elif hs == "wildcard" and hb != "wildcard":
                es = {name: EXPL[fs]}
        else:
            em = None
        self.Base, self.mk_sub = build(kind, eb, es, extra_mi=em)
        self.b = self.Base()
        self.m = build.last_mi()
        self.Sub = None
        self.s = None
        self.inst = {"b": False, "s": False, "m": False}

    def obj(self, who):
        return {"b": self.b, "s": self.s, "m": self.m}[who]

    def do(self, ev):
        """-> outcome tuple"""
        k = ev[0]
        n = self.name
        if k == "define_sub":
            self.Sub = self.mk_sub()
            self.s = self.Sub()
            return ("ok",)
        if k == "base_adds_map":
            try:
                self.Base.add_class_trait("zz", Map({"a": 1, "b": 2}))
            except Exception as e:
                return ("other", type(e).__name__)
            return ("ok",)
        if k == "base_adds_wildcard":
            try:
                self.Base.add_class_trait("x_l_", Int)
            except Exception as e:
                return ("other", type(e).__name__)
            return ("ok",)
        o = self.obj(ev[1])
        try:
            if k == "get":
                v = getattr(o, n)
                return ("value", "Undefined" if v is Undefined else repr(v))
            if k == "set":
                setattr(o, n, ev[2])
                return ("ok",)
            if k == "del":
                delattr(o, n)
                return ("ok",)
            if k == "add_trait":
                o.add_trait(n, Str("inst"))
                self.inst[ev[1]] = True
                return ("ok",)
            if k == "add_trait_list":
                o.add_trait(n, List(Int))
                self.inst[ev[1]] = True
                return ("ok",)
            if k == "add_trait_map":
                o.add_trait(n, Map({"a": 1, "b": 2}))
                self.inst[ev[1]] = True
                return ("ok",)
            if k == "add_trait_prop":
                o.add_trait(n, Property(_forty_two))
                self.inst[ev[1]] = True
                return ("ok",)
            if k == "get_shadow":
                v = getattr(o, n + "_")
                return ("value", repr(v))
            if k == "set_shadow":
                setattr(o, n + "_", 5)
                return ("ok",)
            if k == "get_items":
                v = getattr(o, n + "_items")
                return ("value", repr(v))
            if k == "set_items":
                setattr(o, n + "_items", 5)
                return ("ok",)
            if k == "add_trait2":
                # a second definition for the same name, no removal between
                o.add_trait(n, Int(77))
                self.inst[ev[1]] = True
                return ("ok",)
            if k == "remove_trait":
                r = o.remove_trait(n)
                self.inst[ev[1]] = False
                return ("ok", bool(r))
        except AttributeError:
            return ("AttributeError",)
        except TraitError:
            return ("TraitError",)
        except Exception as e:
            return ("other", type(e).__name__)


class Model:
    """what the statement's explicit clauses fix"""

    def __init__(self, kind, name):
        self.kind, self.name = kind, name
        self.inst = {"b": False, "s": False, "m": False}
        self.ro_written = {"b": False, "s": False, "m": False}
        #: add_trait_prop found a stored value under the name
        self.shadowed = {}
        self.has_sub = False
        #: the base instance touched the name before the subclass existed
        self.late = False

    def gov(self, who):
        if self.inst[who]:
            return "instance", self.inst[who]
        chain = {"b": [BASE_DECL], "s": [SUB_DECL, BASE_DECL],
                 "m": [BASE_DECL, MIXIN_DECL]}[who]
        return resolve(chain, self.name)


def enabled(model, ev):
    if ev[0] == "define_sub":
        return not model.has_sub
    if ev[0] == "base_adds_map":
        return not getattr(model, "base_map", False)
    if ev[0] == "base_adds_wildcard":
        return model.has_sub and not getattr(model, "base_wild", False)
    if ev[1] == "s" and not model.has_sub:
        return False
    if ev[0] in ("add_trait_list", "add_trait_map", "add_trait_prop"):
        return not model.inst[ev[1]]
    if ev[0] in ("get_items", "set_items", "get_shadow", "set_shadow"):
        return True
    if ev[0] == "add_trait":
        return not model.inst[ev[1]]
    if ev[0] == "add_trait2":
        return model.inst[ev[1]] == "Str"
    if ev[0] == "remove_trait":
        return bool(model.inst[ev[1]])
    return True


def check_policy(ctx, model, ev, out, bad):
    """explicit clauses of the statement"""
    k = ev[0]
    if k in ("define_sub",):
        ctx.outcome("subclass-defined-late")
        return
    if k in ("add_trait2", "add_trait_list", "get_items", "set_items",
             "base_adds_wildcard", "base_adds_map", "add_trait_map",
             "get_shadow",
             "set_shadow", "add_trait_prop"):
        return          # (decided by the twin comparison)
    how, f = model.gov(ev[1])
    if k == "remove_trait":
        # (enabled only while an instance trait exists)
        if out != ("ok", True):
            bad("remove-trait-result", "remove_trait of an existing instance "
                "trait gave %r" % (out,))
        return
    if how == "instance" and f == "Prop" and model.shadowed.get(ev[1]):
        # the name already had a stored value when the Property was added
        if k == "get" and out != ("value", "42"):
            bad("instance-property-shadowed", "an instance Property was "
                "added for a name that already had a stored value; the name "
                "still reads %r (the stored value), not the property's 42"
                % (out,))
        return
    if how == "instance" and f == "Prop":
        ctx.outcome("instance-trait-governed")
        if k == "get" and out != ("value", "42"):
            bad("instance-trait-not-governing", "an instance Property was "
                "added but the name reads %r" % (out,))
        if k == "set" and out[0] != "TraitError":
            bad("instance-trait-not-governing", "a read-only instance "
                "Property was added but %r was accepted" % (ev[2],))
        return
    if how == "instance" and f in ("List", "Map"):
        if f == "Map" and k == "set":
            ctx.outcome("instance-trait-governed")
            if out[0] != "TraitError":
                bad("instance-trait-not-governing", "an instance Map trait "
                    "was added but %r was accepted" % (ev[2],))
        return
    name = model.name
    if how == "instance" and f == "Int":
        ctx.outcome("instance-trait-governed")
        if k == "set" and ev[2] == "v" and out[0] != "TraitError":
            bad("second-instance-trait-not-governing", "a second add_trait "
                "(Int) for the name is in force but a str was accepted")
        if k == "set" and ev[2] == 5 and out[0] != "ok":
            bad("second-instance-trait-not-governing", "a second add_trait "
                "(Int) for the name is in force but 5 was rejected")
        return
    if how == "instance":
        ctx.outcome("instance-trait-governed")
        if k == "set" and ev[2] in (5, None) and out[0] != "TraitError":
            bad("instance-trait-not-governing", "an instance Str trait was "
                "added but %r was accepted" % (ev[2],))
        if k == "set" and ev[2] == "v" and out[0] != "ok":
            bad("instance-trait-not-governing", "an instance Str trait was "
                "added but a str was rejected (%s)" % (out,))
        return
    if how == "wildcard":
        ctx.outcome("wildcard-governed")
    if how == "default":
        private = name.startswith("_")
        if model.kind == "HasStrictTraits" or (
                model.kind == "HasPrivateTraits" and not private):
            ctx.outcome("strict-rejected")
            if k == "get" and out[0] != "AttributeError":
                bad("strict-readable", "undeclared name readable on a "
                    "strict class: %r" % (out,))
            if k == "set" and out[0] != "TraitError":
                bad("strict-writable", "undeclared name writable on a "
                    "strict class: %r" % (out,))
        elif model.kind == "HasPrivateTraits" and private:
            ctx.outcome("private-any")
            if k == "set" and out[0] != "ok":
                bad("private-not-any", "private name rejected %r: %r"
                    % (ev[2], out))
        elif model.kind == "HasTraits":
            if k == "set" and out[0] != "ok":
                bad("plain-attribute-rejected", "undeclared name on plain "
                    "HasTraits rejected a value: %r" % (out,))
        return
    if f in ("Int", "IntW", "Int0", "Str", "StrW", "Str0"):
        if k == "set" and ev[2] is None and out[0] != "TraitError":
            bad("typed-accepts-invalid", "typed name accepted None")
    if f in ("Int", "IntW", "Int0"):
        if k == "set" and ev[2] == "v" and out[0] != "TraitError":
            bad("typed-accepts-invalid", "Int-governed name accepted a str")
        if k == "set" and ev[2] == 5 and out[0] != "ok":
            bad("typed-rejects-valid", "Int-governed name rejected 5: %r"
                % (out,))
    if f in ("Str", "StrW", "Str0"):
        if k == "set" and ev[2] == 5 and out[0] != "TraitError":
            bad("typed-accepts-invalid", "Str-governed name accepted an int")
        if k == "set" and ev[2] == "v" and out[0] != "ok":
            bad("typed-rejects-valid", "Str-governed name rejected 'v': %r"
                % (out,))
    if f == "Constant":
        if k == "set":
            ctx.outcome("constant-write")
            if out[0] != "TraitError":
                bad("constant-written", "a Constant accepted an assignment")
        if k == "get" and out != ("value", "9"):
            bad("constant-changed", "Constant reads %r" % (out,))
    if f == "Event":
        if k == "get":
            ctx.outcome("event-read")
            if out[0] != "AttributeError":
                bad("event-readable", "an Event could be read: %r" % (out,))
        if k == "set" and out[0] != "ok":
            bad("event-not-writable", "an Event rejected a write")
    if f == "ReadOnly":
        if k == "set":
            if model.ro_written[ev[1]]:
                ctx.outcome("readonly-second-write")
                if out[0] != "TraitError":
                    bad("readonly-rewritten", "a ReadOnly attribute accepted "
                        "a second assignment")
            else:
                if out[0] != "ok":
                    bad("readonly-first-write", "defining assignment of a "
                        "ReadOnly attribute rejected: %r" % (out,))
                else:
                    model.ro_written[ev[1]] = True


def run_history(ctx, kind, name, hist):
    real = Side(kind, name, twin=False)
    twin = Side(kind, name, twin=True)
    model = Model(kind, name)
    trace = []
    #: control instance that never gets an instance trait: while the acting
    #: instance has no instance List trait, its "<name>_items" name follows
    #: the class rule, i.e. behaves as on the control
    ctl = real.Base()
    for i, ev in enumerate(hist):
        if not enabled(model, ev):
            return None, None
        ctx.tr()
        if ev[0] == "add_trait_prop":
            model.shadowed[ev[1]] = name in real.obj(ev[1]).__dict__
        o1 = real.do(ev)
        o2 = twin.do(ev)
        if (ev[0] in ("get_items", "set_items") and
                model.inst[ev[1]] != "List") or \
                (ev[0] in ("get_shadow", "set_shadow") and
                 model.inst[ev[1]] != "Map"):
            keep, real.b = real.b, ctl
            try:
                o3 = real.do(ev)
            finally:
                real.b = keep
            if o3 != o1:
                ctx.violation(
                    "C13:items-companion:%s:%s:%s" % (kind, name, ev[0]),
                    "%r on the companion name of %r gives %r although the "
                    "instance has no List / mapped instance trait (any "
                    "more); an instance that never had one gives %r"
                    % (ev, name, o1, o3), kind=kind,
                    name=name, history=hist, real=repr(o1), twin=repr(o3))
                return False, None
        trace.append((ev, o1))
        last = i == len(hist) - 1

        def bad(k, msg):
            if getattr(model, "base_map", False) and name.startswith("zz"):
                k += ":after-class-map"
            ctx.violation("C13:%s:%s:%s:%s" % (k, kind, name, ev[0]), msg,
                          kind=kind, name=name, history=hist,
                          real=repr(o1), twin=repr(o2))
        nviol = ctx.nviol
        if ev[0] == "define_sub":
            model.has_sub = True
        elif not model.has_sub and len(ev) > 1 and ev[1] == "b" and \
                ev[0] in ("get", "set", "del"):
            model.late = True
        if ev[0] == "remove_trait":
            ctx.outcome("class-rule-restored")
        if o1 != o2:
            known = ctx.violation(
                "C13:twin-mismatch:%s:%s:%s:%s%s" % (
                    kind, name, ev[0], ev[1] if len(ev) > 1 else "",
                    ":late" if model.late else ""),
                "%r on %r gives %r, but %r where the governing trait is "
                "declared explicitly" % (ev, name, o1, o2), kind=kind,
                name=name, history=hist, real=repr(o1), twin=repr(o2))
            if not known:
                return False, None
            return True, None       # known finding: do not extend
        check_policy(ctx, model, ev, o1, bad)
        if ev[0] == "add_trait":
            model.inst[ev[1]] = "Str"
        if ev[0] == "add_trait2":
            model.inst[ev[1]] = "Int"
        if ev[0] == "add_trait_list":
            model.inst[ev[1]] = "List"
        if ev[0] == "add_trait_map":
            model.inst[ev[1]] = "Map"
        if ev[0] == "add_trait_prop":
            model.inst[ev[1]] = "Prop"
        if ev[0] == "base_adds_wildcard":
            model.base_wild = True
        if ev[0] == "base_adds_map":
            model.base_map = True
        if ev[0] == "remove_trait":
            if ev[1] == "b" and model.inst[ev[1]] in ("List", "Map"):
                # removing the trait removes its companion with whatever
                # value was stored under the companion's name
                ctl.__dict__.pop(name + ("_items" if model.inst[ev[1]]
                                         == "List" else "_"), None)
            model.inst[ev[1]] = False
            model.ro_written[ev[1]] = False
        if ev[0] == "del" and o1[0] == "ok":
            model.ro_written[ev[1]] = False
        if ctx.nviol != nviol:
            return False, None
        how = model.gov(ev[1])[0] if len(ev) > 1 else "x"
        if how != "explicit" or model.gov(ev[1])[1] not in ("Int", "Str"):
            ctx.nontriv((kind, name, tuple(trace)))
    key = (kind, name, tuple(t[1] for t in trace[-2:]),
           sorted(real.b.__dict__.items(), key=repr),
           sorted(real.s.__dict__.items(), key=repr) if real.s else None,
           model.inst["b"], model.inst["s"], model.inst["m"], model.has_sub,
           sorted(model.shadowed.items()),
           sorted(real.m.__dict__.items(), key=repr),
           model.ro_written["b"], model.ro_written["s"],
           model.ro_written["m"], getattr(model, "base_wild", False),
           getattr(model, "base_map", False),
           name in real.Base.__dict__.get("__class_traits__", {}),
           name in real.Base.__base_traits__,
           # the instance trait tables are state too (they live outside
           # __dict__)
           sorted(real.b._instance_traits()), sorted(real.m._instance_traits()),
           sorted(real.s._instance_traits()) if real.s else None)
    return True, repr(key)


ADDER_EXPECT = {("get",): ("value", "'inst'"), ("set", 5): ("TraitError",),
                ("set", "v"): ("ok",), ("set", None): ("TraitError",)}


def adder_cells(ctx, kind, name):
    """A trait_added listener adds an instance trait for the very name whose
    first access announced it: that access is already governed by the
    instance trait (statement: "the instance trait of that name if one was
    added")."""
    for prior in ((), (("get", "zzq"),), (("set", 5),)):
        for op, want in ADDER_EXPECT.items():
            ctx.case({"kind": kind, "name": name, "adder": list(op),
                      "prior": [list(x) for x in prior]})
            ctx.ev()
            ctx.tr()
            side = Side(kind, name, twin=False)
            o = side.b
            ran = []

            def adder(added):
                if added == name and name not in o._instance_traits():
                    ran.append(added)
                    o.add_trait(name, Str("inst"))
            for pr in prior:
                # another instance / another name went first
                try:
                    if pr[0] == "get":
                        getattr(o, pr[1], None)
                    else:
                        setattr(side.Base(), name, pr[1])
                except Exception:
                    pass
            o.on_trait_change(adder, "trait_added")
            try:
                if op[0] == "get":
                    v = getattr(o, name)
                    out = ("value", repr(v))
                else:
                    setattr(o, name, op[1])
                    out = ("ok",)
            except AttributeError:
                out = ("AttributeError",)
            except TraitError:
                out = ("TraitError",)
            except Exception as e:
                out = ("other", type(e).__name__)
            if not ran:
                continue
            ctx.outcome("instance-trait-governed")
            if out != want:
                ctx.violation(
                    "C13:added-in-listener:%s:%s:%s" % (kind, name, op[0]),
                    "a trait_added listener added an instance Str trait for "
                    "%r during the first access; %r then gave %r, the "
                    "instance trait prescribes %r" % (name, op, out, want),
                    kind=kind, name=name, history=[["adder"] + list(op)])


def shards(tier):
    return [{"kind": k, "name": n} for k in KINDS for n in NAMES]


def run_shard(ctx, shard, tier):
    kind, name = shard["kind"], shard["name"]
    adder_cells(ctx, kind, name)
    evs = events()
    depth = 3 if tier == "quick" else 5
    frontier = [[]]
    n_exec = 0
    # (the fifth level of the thorough tier uses the menu without the
    #  events added last; they are complete to depth 4)
    evs_last = [e for e in evs if e[0] not in ("add_trait_prop",
                                               "base_adds_map")]
    for d in range(1, depth + 1):
        nxt = []
        for hist in frontier:
            for ev in (evs_last if d == 5 else evs):
                h2 = hist + [ev]
                ctx.case({"kind": kind, "name": name, "history": h2})
                ok, key = run_history(ctx, kind, name, h2)
                if ok is None:
                    continue
                ctx.ev()
                n_exec += 1
                if n_exec % 300 == 0:
                    gc.collect()
                if ok and key is not None and ctx.state(key):
                    nxt.append(h2)
        frontier = nxt
    ctx.depth_completed = depth
    ctx.sample({"kind": kind, "name": name,
                "history": frontier[0] if frontier else [evs[0]]})


def replay(rec):
    from mc.ctx import Ctx
    ctx = Ctx("C13", None, "quick", 0)
    c = rec.get("case") or rec
    if "adder" in c:
        adder_cells(ctx, c["kind"], c["name"])
        for v in ctx.violations.values():
            print("  violation:", v["sig"], v["msg"])
        return not ctx.violations
    hist = [tuple(e) for e in c["history"]]
    run_history(ctx, c["kind"], c["name"], hist)
    print(c["kind"], c["name"], hist)
    for v in ctx.violations.values():
        print("  violation:", v["sig"], v["msg"])
    return not ctx.violations
