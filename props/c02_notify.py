"""C02 — change handlers fire exactly once per real change, truthful old/new.

Histories of assignments / default reads over a small value pool, for every
trait kind x comparison mode x "which handler raises"; after every step each
of the six registered handlers (static _x_changed, _anytrait_changed, two
on_trait_change, two observe) must have received exactly the calls the
comparison mode prescribes, with old = the object readable before and new =
the object readable after.
"""
import itertools

import numpy as np

from traits.api import (AdaptsTo, Any, ComparisonMode, Event, Expression,
                        Float, HasTraits, Instance, Int, List,
                        PrototypedFrom, Str, Supports, TraitError, Undefined,
                        observe, on_trait_change)

from props.lattice import C0, FOO0, IFoo

LEVEL = "model_checking"
RULE = ("every history up to the depth bound over {assign(v) for v in the "
        "value pool, read} for every (trait kind, comparison mode, raising "
        "handler) configuration; state = (stored pool token, default "
        "materialised?); non-trivial = a step that notified, was rejected or "
        "was suppressed as 'no change'; distinct = distinct (config, state, "
        "event)")
EXPLANATION = ("direct exploration; reference model = counts_as_change(mode, "
               "old, new) from the statement evaluated on the objects stored "
               "before/after")
BOUNDS = {"quick": "depth 4, all configurations x 7 raising variants",
          "thorough": "depth 6"}
ASSUMPTIONS = ["dispatch='same' only", "for a value whose == raises the "
               "statement leaves the verdict open: only agreement between the"
               " mechanisms is required"]
MIN_OUTCOMES = {t: ["notified", "suppressed-equal", "suppressed-identical",
                    "rejected", "default-read-silent", "event-fired",
                    "raising-handler-contained", "eq-raises"]
                for t in ("quick", "thorough")}
TIMEOUT = {"quick": 900, "thorough": 3600}


class A(HasTraits):
    pass


class BadEq:
    def __eq__(self, other):
        raise RuntimeError("== raises")

    def __ne__(self, other):
        raise RuntimeError("!= raises")

    __hash__ = object.__hash__


class BadRepr:
    """its own repr/str raise (values are formatted when a failing handler
    is logged)"""

    def __repr__(self):
        raise RuntimeError("repr raises")

    __str__ = __repr__


def safe_repr(x):
    try:
        return repr(x)
    except Exception:
        return "<%s with failing repr>" % type(x).__name__


class Proto(HasTraits):
    x = Event
    n = Int(0)


NAN1, NAN2 = float("nan"), float("nan")
L1, L2 = [1], [1]
A1, A2 = A(), A()
BAD = BadEq()

POOL = {
    "1": 1, "2": 2, "1.0": 1.0, "True": True, "L1": L1, "L2": L2,
    "nan1": NAN1, "nan2": NAN2, "badeq": BAD, "None": None, "a": "a",
    "b": "b", "A1": A1, "A2": A2, "2.0": 2.0, "big": 10 ** 20,
    "big2": 10 ** 20 + 0, "sa2": "".join(["a"]),
    "badrepr": BadRepr(), "badrepr2": BadRepr(), "7": 7, "0": 0,
    "C0": C0, "FOO0": FOO0, "e1": "1+1", "e1b": "".join(["1+", "1"]),
    # values whose != gives something without a truth value
    "arr1": np.array([1, 2]), "arr2": np.array([1, 2]),
    "e2": "2", "ebad": "1+",
}

MODES = {"none": ComparisonMode.none, "identity": ComparisonMode.identity,
         "equality": ComparisonMode.equality}

# kind -> (factory(mode), value tokens)
KINDS = {
    "Any": (lambda m: Any(comparison_mode=MODES[m]),
            ["1", "2", "1.0", "True", "L1", "L2", "nan1", "nan2", "badeq",
             "None", "badrepr", "badrepr2", "arr1", "arr2"]),
    "Int": (lambda m: Int(comparison_mode=MODES[m]),
            ["1", "2", "True", "big", "big2", "a"]),
    "Str": (lambda m: Str(comparison_mode=MODES[m]), ["a", "sa2", "b", "1"]),
    "Float": (lambda m: Float(comparison_mode=MODES[m]),
              ["1.0", "1", "2.0", "nan1", "nan2", "a"]),
    "List": (lambda m: List(Int, comparison_mode=MODES[m]),
             ["L1", "L2", "None"]),
    "Instance": (lambda m: Instance(A, comparison_mode=MODES[m]),
                 ["A1", "A2", "None", "1"]),
    "AdaptsTo": (lambda m: AdaptsTo(IFoo, comparison_mode=MODES[m]),
                 ["C0", "FOO0", "None", "1"]),
    "Supports": (lambda m: Supports(IFoo, comparison_mode=MODES[m]),
                 ["FOO0", "None", "1"]),
    "Expression": (lambda m: Expression("0", comparison_mode=MODES[m]),
                   ["e1", "e1b", "e2", "ebad"]),
    "Event": (lambda m: Event(), ["1", "1.0", "L1", "None"]),
    "EventInt": (lambda m: Event(Int), ["1", "True", "a"]),
    # an Event reached through a PrototypedFrom trait, fired on the
    # deferring object
    "EventProto": (lambda m: PrototypedFrom("proto"), ["1", "L1", "None"]),
    # a value prototyped from another object whose value is off its
    # declared default: "old" of the first local assignment is what was
    # readable before (the prototype's value), not the declared default
    "ProtoInt": (lambda m: PrototypedFrom("proto", prefix="n"),
                 ["7", "0", "1", "a"]),
}
HANDLERS = ["static", "static_base", "anytrait", "otc_fn", "otc_method",
            "obs1", "obs2", "otc_ui", "obs_ui", "dec_otc", "dec_obs"]


def configs():
    out = []
    for kind in KINDS:
        modes = ["equality"] if kind.startswith("Event") or \
            kind == "ProtoInt" else list(MODES)
        for mode in modes:
            out.append((kind, mode))
    return out


class Rig:
    def __init__(self, kind, mode, raiser, threaded=False):
        self.kind, self.mode, self.raiser = kind, mode, raiser
        self.threaded = threaded
        self.log = {h: [] for h in HANDLERS}
        self.swallowed = []
        log, rig = self.log, self
        factory = KINDS[kind][0]

        def rec(h, name, old, new):
            # (also what the attribute holds while the handler runs)
            log[h].append((name, old, new,
                           rig.o.__dict__.get("x", MISSING)))
            if rig.raiser == h:
                raise RuntimeError("handler %s fails" % h)

        class BaseOwner(HasTraits):
            x = factory(mode)
            y = Int(5)
            proto = Instance(Proto, ())

            # a static hook defined in the base class ...
            def _x_fired(self, old, new):
                rec("static_base", "x", old, new)

        class Owner(BaseOwner):
            # ... and further static hooks for the same trait in a subclass
            def _x_changed(self, old, new):
                rec("static", "x", old, new)

            def _anytrait_changed(self, name, old, new):
                if name == "x":
                    rec("anytrait", name, old, new)

            # handlers declared with the decorators
            @on_trait_change("x")
            def _dec_otc(self, obj, name, old, new):
                rec("dec_otc", name, old, new)

            @observe("x")
            def _dec_obs(self, ev):
                rec("dec_obs", ev.name, ev.old, ev.new)

        class Listener:
            def m(self, obj, name, old, new):
                rec("otc_method", name, old, new)
        self.listener = Listener()
        self.o = Owner()
        if kind == "ProtoInt":
            self.o.proto.n = 7
        self.o.on_trait_change(
            lambda obj, name, old, new: rec("otc_fn", name, old, new), "x")
        self.o.on_trait_change(self.listener.m, "x")
        self.o.observe(lambda ev: rec("obs1", ev.name, ev.old, ev.new), "x")
        self.o.observe(lambda ev: rec("obs2", ev.name, ev.old, ev.new), "x")
        # "ui" dispatch: immediate when called from the main thread
        self.o.on_trait_change(
            lambda obj, name, old, new: rec("otc_ui", name, old, new), "x",
            dispatch="ui")
        self.o.observe(lambda ev: rec("obs_ui", ev.name, ev.old, ev.new),
                       "x", dispatch="ui")
        self.default = None
        for h in HANDLERS:
            log[h].clear()

    def clear(self):
        for h in HANDLERS:
            self.log[h].clear()


MISSING = object()

# "ui" dispatch from a worker thread: the registered UI handler queues the
# call; the main thread drains the queue after the assignment returned
import threading  # noqa: E402
from traits.trait_notifiers import set_ui_handler  # noqa: E402

UI_QUEUE = []
set_ui_handler(lambda handler, *args, **kw: UI_QUEUE.append(
    (handler, args, kw)))


def drain_ui_queue():
    while UI_QUEUE:
        handler, args, kw = UI_QUEUE.pop(0)
        try:
            handler(*args, **kw)
        except Exception:
            pass        # (a UI event loop contains what its callbacks raise)


def maybe_threaded(rig, f):
    """run f() in a worker thread when the rig is in threaded mode"""
    if not getattr(rig, "threaded", False):
        return f()
    box = {}

    def target():
        try:
            box["r"] = f()
        except BaseException as e:
            box["e"] = e
    t = threading.Thread(target=target)
    t.start()
    t.join()
    drain_ui_queue()
    if "e" in box:
        raise box["e"]
    return box.get("r")


def counts_as_change(mode, old, new):
    """From the statement. Returns True / False / None (verdict open)."""
    if mode == "none":
        return True
    if old is new:
        return False
    if mode == "identity":
        return True
    try:
        return bool(old != new)
    except Exception:
        return None


def declared_default(kind):
    return {"Any": None, "Int": 0, "Str": "", "Float": 0.0, "List": [],
            "Instance": None, "AdaptsTo": None, "Supports": None,
            "Expression": "0", "ProtoInt": 7}.get(kind)


def step(ctx, rig, ev, hist):
    """Execute one event; returns False if a violation was recorded."""
    kind, mode = rig.kind, rig.mode
    o = rig.o
    before = o.__dict__.get("x", MISSING)
    rig.clear()
    ctx.tr()
    good = True

    def bad(k, msg):
        nonlocal good
        good = False
        ctx.violation("C02:%s:%s:%s:raiser=%s%s" % (
            k, kind, mode, rig.raiser, ":threaded" if rig.threaded else ""),
                      msg, kind=kind, mode=mode, raiser=rig.raiser,
                      history=hist, event=ev,
                      calls={h: [(n, safe_repr(a), safe_repr(b))
                                 for n, a, b in l]
                             for h, l in rig.log.items()})

    if ev[0] == "read":
        if kind.startswith("Event"):
            try:
                o.x
                bad("event-readable", "an Event trait could be read")
            except AttributeError:
                pass
            return good
        try:
            val = o.x
        except Exception as e:
            bad("read-raises", "read raised %r" % (e,))
            return good
        if any(rig.log.values()):
            bad("default-read-notified", "reading the value called handlers")
        if before is MISSING:
            ctx.outcome("default-read-silent")
            ctx.nontriv((kind, mode, "read-default"))
            if val != declared_default(kind):
                bad("default", "default read %r" % (val,))
        elif val is not before:
            bad("read", "read returned a different object")
        return good
    # assignment
    v = POOL[ev[1]]
    exc = None
    try:
        if len(ev) > 2 and ev[2] == "trait_setq":
            maybe_threaded(rig, lambda: o.trait_setq(x=v))
        elif len(ev) > 2:
            maybe_threaded(rig, lambda: o.trait_set(x=v))
        else:
            maybe_threaded(rig, lambda: setattr(o, "x", v))
    except TraitError as e:
        exc = e
    except Exception as e:
        bad("assign-raises", "assignment raised %s" % safe_repr(e))
        return good
    after = o.__dict__.get("x", MISSING)
    if exc is not None:
        ctx.outcome("rejected")
        ctx.nontriv((kind, mode, "rejected", ev[1]))
        if after is not before:
            bad("rejected-stored", "rejected assignment changed the value")
        if any(rig.log.values()):
            bad("rejected-notified", "rejected assignment called handlers")
        return good
    if kind.startswith("Event"):
        rig.fired = getattr(rig, "fired", 0) + 1
        ctx.outcome("event-fired")
        ctx.nontriv((kind, mode, "event", ev[1]))
        if after is not MISSING:
            bad("event-stored", "an Event assignment stored a value")
        exp_new = int(v) if kind == "EventInt" else v
        for h in HANDLERS:
            calls = rig.log[h]
            if len(calls) != 1:
                bad("event-count", "%s called %d times for an Event "
                    "assignment" % (h, len(calls)))
                continue
            name, old, new = calls[0][:3]
            if old is not Undefined:
                bad("event-old", "%s got old=%r for an Event" % (h, old))
            if new is not exp_new and not (type(new) is type(exp_new)
                                           and new == exp_new):
                bad("event-new", "%s got new=%r, expected %r" % (h, new,
                                                                  exp_new))
        return good
    if after is MISSING:
        bad("not-stored", "accepted assignment stored nothing")
        return good
    if before is MISSING:
        old_is_default = True
        dflt = declared_default(kind)
        verdict = counts_as_change(mode, dflt, after)
        if mode == "identity" and kind in ("List",):
            verdict = True      # a fresh default container is a new object
    else:
        old_is_default = False
        verdict = counts_as_change(mode, before, after)
    counts = {h: len(rig.log[h]) for h in HANDLERS}
    if len(ev) > 2 and ev[2] == "trait_setq":
        verdict = False         # quiet: nobody is told
    if verdict is None:
        ctx.outcome("eq-raises")
        ctx.nontriv((kind, mode, "eq-raises", ev[1]))
        if len(set(counts.values())) != 1 or max(counts.values()) > 1:
            bad("mechanisms-disagree", "== raises: mechanisms disagree: %r"
                % counts)
        want = max(counts.values())
    else:
        want = 1 if verdict else 0
    if want:
        ctx.outcome("notified")
        ctx.nontriv((kind, mode, "notified", safe_repr(before)[:20], ev[1]))
    else:
        ctx.outcome("suppressed-identical" if (before is after)
                    else "suppressed-equal")
        ctx.nontriv((kind, mode, "suppressed", safe_repr(before)[:20],
                     ev[1]))
    for h in HANDLERS:
        calls = rig.log[h]
        if len(calls) != want:
            bad("count", "%s called %d time(s), expected %d (old=%s new=%s)"
                % (h, len(calls), want,
                   "default" if old_is_default else safe_repr(before),
                   safe_repr(after)))
            continue
        for name, old, new, held in calls:
            if name != "x":
                bad("name", "%s got name %r" % (h, name))
            if held is not new:
                bad("not-yet-readable", "while %s ran, the attribute held "
                    "%s, not the reported new value %s" % (
                        h, "nothing" if held is MISSING else safe_repr(held),
                        safe_repr(new)))
            if new is not after:
                bad("new", "%s got new=%s but %s is readable after"
                    % (h, safe_repr(new), safe_repr(after)))
            if old_is_default:
                try:
                    ok = (old == declared_default(kind)) or \
                        (old is declared_default(kind))
                except Exception:
                    ok = False
                if not ok:
                    bad("old", "%s got old=%r, the default is %r"
                        % (h, old, declared_default(kind)))
            elif old is not before:
                bad("old", "%s got old=%s but %s was readable before"
                    % (h, safe_repr(old), safe_repr(before)))
    if rig.raiser is not None and want and rig.log[rig.raiser]:
        ctx.outcome("raising-handler-contained")
    return good


def events(kind):
    evs = [("read",)]
    for tok in KINDS[kind][1]:
        evs.append(("assign", tok))
    for tok in KINDS[kind][1][:3]:
        evs.append(("assign", tok, "trait_set"))
    if kind in ("Int", "Str", "Float"):
        # quiet bulk assignment: stores (or rejects) without notifying, and
        # leaves the object notifying as before
        for tok in KINDS[kind][1][:2] + KINDS[kind][1][-1:]:
            evs.append(("assign", tok, "trait_setq"))
    return evs


# ------------------------------------------------------------------- cells
def wildcard_cells(ctx):
    """Attributes governed by one wildcard declaration: each name is its own
    trait for the static handlers (a specially named method for one name, the
    anytrait method for all)."""
    import itertools
    names = ("w_a", "w_b", "w_c")
    for hist in itertools.chain.from_iterable(
            itertools.product([(n, v) for n in names for v in (1, 2)],
                              repeat=k) for k in (1, 2, 3)):
        ctx.case({"cell": "wildcard", "history": [list(e) for e in hist]})
        ctx.ev()
        log = []

        class W(HasTraits):
            w_ = Int

            def _w_a_changed(self, name, old, new):
                log.append(("w_a_changed", name, old, new))

            def _anytrait_changed(self, name, old, new):
                if name.startswith("w_"):
                    log.append(("anytrait", name, old, new))
        objs = [W(), W()]
        vals = [{}, {}]
        for i, (n, v) in enumerate(hist):
            # alternate between two instances of the class
            k = i % 2
            o, cur = objs[k], vals[k]
            old = cur.get(n, 0)
            log.clear()
            ctx.tr()
            setattr(o, n, v)
            cur[n] = v
            exp = []
            if old != v:
                if n == "w_a":
                    exp.append(("w_a_changed", n, old, v))
                exp.append(("anytrait", n, old, v))
            if sorted(log) != sorted(exp):
                ctx.violation(
                    "C02:wildcard-static:%s" % n,
                    "names governed by the wildcard w_ = Int: %s = %r (was "
                    "%r) called %r, expected %r" % (n, v, old, log, exp),
                    cell="wildcard", history=[list(e) for e in hist])
                break
            ctx.outcome("notified" if exp else "suppressed-identical")


def magic_named_observe_cells(ctx):
    """A method declared with @observe that also carries a magic name
    (_x_changed, _x_fired, _anytrait_changed) is an observe handler only:
    in the class that defines it and in subclasses, one call per change"""
    for magic, sub in (("_x_changed", False), ("_x_changed", True),
                       ("_anytrait_changed", True), ("_x_fired", True)):
        ctx.case({"cell": "magic-observe", "name": magic, "subclass": sub})
        ctx.ev()
        calls = []

        def body(self, *args):
            calls.append(args)
        ns = {"x": Int, magic: observe("x")(body)}
        Base = type("Base", (HasTraits,), ns)
        cls = type("Sub", (Base,), {}) if sub else Base
        o = cls()
        for v in (1, 2):
            calls.clear()
            ctx.tr()
            try:
                o.x = v
            except Exception as exc:
                ctx.violation("C02:magic-observe:raises", "raised %r"
                              % (exc,), cell="magic-observe", name=magic,
                              subclass=sub)
                break
            if len(calls) != 1 or len(calls[0]) != 1 or \
                    getattr(calls[0][0], "new", None) != v:
                ctx.violation(
                    "C02:magic-observe:%s" % magic,
                    "@observe('x') method named %s, instance of %s: x = %d "
                    "called it with %r, expected one call with the event"
                    % (magic, "a subclass" if sub else "the class", v,
                       [tuple(type(a).__name__ for a in c) for c in calls]),
                    cell="magic-observe", name=magic, subclass=sub)
                break
            ctx.outcome("notified")


def instance_trait_cells(ctx):
    """Two instances of one class carry an instance trait of the same name
    with different comparison modes: each assignment goes by the mode of the
    trait of the object assigned to."""
    import itertools
    modes = ("none", "identity", "equality")
    for m1, m2 in itertools.product(modes, repeat=2):
        if m1 == m2:
            continue
        for first in (0, 1):
            for toks in itertools.product(("L1", "L2"), repeat=2):
                ctx.case({"cell": "instance-trait", "modes": [m1, m2],
                          "first": first, "values": list(toks)})
                ctx.ev()

                class H(HasTraits):
                    pass
                objs = [H(), H()]
                logs = [{"otc": [], "obs": []}, {"otc": [], "obs": []}]
                for o, m, lg in zip(objs, (m1, m2), logs):
                    o.add_trait("x", Any(comparison_mode=MODES[m]))
                    def mk(lg):
                        def otc(obj, n, old, new):
                            lg["otc"].append(new)

                        def obs(ev):
                            lg["obs"].append(ev.new)
                        return otc, obs
                    otc, obs = mk(lg)
                    o.on_trait_change(otc, "x")
                    o.observe(obs, "x")
                order = (0, 1) if first == 0 else (1, 0)
                good = True
                for tok in toks:
                    for k in order:
                        o, m, lg = objs[k], (m1, m2)[k], logs[k]
                        old = o.__dict__.get("x", None)
                        new = POOL[tok]
                        for l in lg.values():
                            l.clear()
                        ctx.tr()
                        o.x = new
                        want = counts_as_change(m, old, new)
                        exp = 1 if want else 0
                        got = (len(lg["otc"]), len(lg["obs"]))
                        if got != (exp, exp):
                            ctx.violation(
                                "C02:instance-trait-mode:%s" % m,
                                "two instances with an instance trait x of "
                                "comparison modes %s / %s: assigning %s to "
                                "the %s one (old %r) called on_trait_change "
                                "%d and observe %d time(s), expected %d" % (
                                    m1, m2, tok, m, old, got[0], got[1], exp),
                                cell="instance-trait", modes=[m1, m2],
                                first=first, values=list(toks))
                            good = False
                            break
                        ctx.outcome("notified" if exp else
                                    "suppressed-equal")
                    if not good:
                        break


def listener_object_cells(ctx):
    """the specially named methods of a *listener object* attached with
    add_trait_listener (optionally under a prefix): each one is a registered
    handler like any other - once per change, never after removal"""
    from traits.api import Event, HasTraits, Int

    class Src(HasTraits):
        n = Int
        go = Event

    for prefix in ("", "src"):
        pre = (prefix + "_") if prefix else "_"
        for hist in (("n",), ("go",), ("n", "go"), ("go", "go", "n"),
                     ("n", "n-same", "go")):
            case = {"cell": "listener-object", "prefix": prefix,
                    "history": list(hist)}
            ctx.case(case)
            ctx.ev()
            calls = []

            def mk(tag, name):
                def m(self):
                    calls.append(tag)
                m.__name__ = name       # (methods are re-fetched by name)
                return m
            L = type("L", (), {
                pre + nm: mk(tag, pre + nm) for nm, tag in (
                    ("n_changed", "n_changed"), ("go_fired", "go_fired"),
                    ("go_changed", "go_changed"),
                    ("anytrait_changed", "any"))})
            lst = L()
            s = Src()
            if prefix:
                s.add_trait_listener(lst, prefix)
            else:
                s.add_trait_listener(lst)
            val = 0
            for ev in hist:
                calls.clear()
                ctx.tr()
                if ev == "n":
                    val += 1
                    s.n = val
                    want = {"n_changed": 1, "any": 1}
                elif ev == "n-same":
                    s.n = val
                    want = {}
                else:
                    s.go = True
                    want = {"go_fired": 1, "go_changed": 1, "any": 1}
                got = {t: calls.count(t) for t in set(calls)}
                if got != want:
                    ctx.violation(
                        "C02:listener-object:%s" % ev.split("-")[0],
                        "listener object attached with add_trait_listener"
                        "(%r): event %r called %r, expected %r"
                        % (prefix, ev, got, want), **case)
                    break
                ctx.outcome("exactly-once" if want else "silent-no-change")
            else:
                if prefix:
                    s.remove_trait_listener(lst, prefix)
                else:
                    s.remove_trait_listener(lst)
                calls.clear()
                s.n = val + 5
                s.go = True
                if calls:
                    ctx.violation("C02:listener-object:after-removal",
                                  "after remove_trait_listener the methods "
                                  "%r were still called" % (calls,), **case)


def shards(tier):
    out = [{"cell": "wildcard"}, {"cell": "instance-trait"},
           {"cell": "magic-observe"}, {"cell": "listener-object"}]
    for kind, mode in configs():
        for grp in (0, 1, 2):
            out.append({"kind": kind, "mode": mode, "group": grp})
    # assignments made from a worker thread (ui-dispatched handlers are
    # queued and run by the main thread afterwards)
    for kind, mode in (("Any", "equality"), ("Any", "none"),
                       ("Int", "equality"), ("Event", "equality")):
        out.append({"kind": kind, "mode": mode, "group": 0, "threaded": True})
    return out


def canon(rig):
    x = rig.o.__dict__.get("x", MISSING)
    if rig.kind.startswith("Event"):
        # events store nothing; the number of firings so far (capped) is
        # kept apart so that repeated firings are explored
        return "fired:%d" % min(getattr(rig, "fired", 0), 2)
    if x is MISSING:
        return "unset"
    for tok, val in POOL.items():
        if x is val:
            return tok
    return "conv:" + type(x).__name__ + ":" + safe_repr(x)


def run_shard(ctx, shard, tier):
    if shard.get("cell"):
        {"wildcard": wildcard_cells, "instance-trait": instance_trait_cells,
         "magic-observe": magic_named_observe_cells,
         "listener-object": listener_object_cells}[shard["cell"]](ctx)
        ctx.depth_completed = 3
        return
    raisers = ([None] + HANDLERS)[shard["group"]::3]
    if shard.get("threaded"):
        raisers = [None, "obs_ui", "otc_ui"]
    for raiser in raisers:
        run_config(ctx, shard["kind"], shard["mode"], raiser, tier,
                   threaded=bool(shard.get("threaded")))


def run_config(ctx, kind, mode, raiser, tier, threaded=False):
    depth = 4 if tier == "quick" else 6
    evs = events(kind)
    # stateless enumeration of all histories up to `depth` with canonical
    # state dedup: extend a history only from the first history that reached
    # its state
    seen = set()
    frontier = [[]]
    for d in range(depth):
        nxt = []
        for hist in frontier:
            for ev in evs:
                h2 = hist + [ev]
                ctx.case({"kind": kind, "mode": mode, "raiser": raiser,
                          "history": h2, "threaded": threaded})
                ctx.ev()
                rig = Rig(kind, mode, raiser, threaded)
                ok = True
                for i, e in enumerate(h2):
                    if i < len(h2) - 1:
                        # prefix replay (already checked when it was last)
                        replay_quiet(rig, e)
                    else:
                        ok = step(ctx, rig, e, h2)
                # the bulk routes switch a hidden per-object mode on and off;
                # a state reached through one is kept apart from the same
                # value reached by plain assignment, so it is extended too
                key = (kind, mode, raiser, threaded, canon(rig),
                       ev[2] if len(ev) > 2 else None)
                if ok and ctx.state(key):
                    nxt.append(h2)
        frontier = nxt
    ctx.depth_completed = depth
    ctx.sample({"kind": kind, "mode": mode, "raiser": raiser,
                "history": frontier[0] if frontier else []})


def replay_quiet(rig, ev):
    try:
        if ev[0] == "read":
            rig.o.x
        else:
            v = POOL[ev[1]]
            if len(ev) > 2 and ev[2] == "trait_setq":
                maybe_threaded(rig, lambda: rig.o.trait_setq(x=v))
            elif len(ev) > 2:
                maybe_threaded(rig, lambda: rig.o.trait_set(x=v))
            else:
                maybe_threaded(rig, lambda: setattr(rig.o, "x", v))
            if rig.kind.startswith("Event"):
                rig.fired = getattr(rig, "fired", 0) + 1
    except Exception:
        pass


def replay(rec):
    from mc.ctx import Ctx
    ctx = Ctx("C02", None, "quick", 0)
    c = rec["case"]
    if c.get("cell"):
        {"wildcard": wildcard_cells, "instance-trait": instance_trait_cells,
         "magic-observe": magic_named_observe_cells,
         "listener-object": listener_object_cells}[c["cell"]](ctx)
        for v in ctx.violations.values():
            print("  violation:", v["sig"], v["msg"])
        return not ctx.violations
    rig = Rig(c["kind"], c["mode"], c["raiser"], c.get("threaded", False))
    for e in c["history"]:
        e = tuple(e)
        step(ctx, rig, e, c["history"])
        print("event", e, "->", canon(rig),
              {h: len(l) for h, l in rig.log.items()})
    for v in ctx.violations.values():
        print("  violation:", v["sig"], v["msg"])
    return not ctx.violations
