"""C01 — assigned values always lie in the trait's declared domain.

Exhaustive grid: every configuration of props/lattice.py x every lattice value
x assignment route x pre-state.
"""
import numpy as np

from traits.api import HasTraits, TraitError

from props import lattice as L

LEVEL = "exploration"
RULE = ("exhaustive product: trait configuration grid x value lattice x "
        "assignment route (setattr, constructor keyword, trait_set) x "
        "pre-state (default never read / a stored valid value); non-trivial ="
        " the value was accepted with a conversion, accepted on a declared "
        "boundary configuration, or rejected; distinct = distinct "
        "(configuration, value label, outcome class)")
EXPLANATION = ("every assignment is executed on the real class; oracle: "
               "independent in-domain predicate on the value read back, "
               "documented acceptance/conversion model where the "
               "documentation fixes it, TraitError naming the attribute and "
               "bit-identical __dict__ on rejection")
BOUNDS = {"quick": "full grid x lattice via setattr from both pre-states; "
                   "constructor and trait_set routes on every configuration "
                   "from the fresh pre-state for a 40-value sub-lattice",
          "thorough": "full grid + every ordered triple of 13 members as Either (1716 more configurations) x full lattice x 4 routes x 2 pre-states"}
ASSUMPTIONS = ["values outside the lattice and option combinations outside "
               "the grid are not covered", "UI-only traits (Color, Font, "
               "Button) and Expression semantics are out of scope"]
MIN_OUTCOMES = {t: ["accepted-same", "accepted-converted", "rejected",
                    "protocol-exception", "shadow-checked"]
                for t in ("quick", "thorough")}
TIMEOUT = {"quick": 900, "thorough": 3600}

_CLS = {}


def owner_class(name):
    if name not in _CLS:
        c = L.CONFIGS[name]
        ns = {"x": c.make(), "other": L.Int(7)}
        for k, (T, v) in c.owner_attrs.items():
            ns[k] = T(v)
        cls = type("Owner", (HasTraits,), ns)
        _CLS[name] = cls
    return _CLS[name]


_PCLS = {}


def proto_class(name):
    """the configuration's trait reached through PrototypedFrom: validated
    by the prototype's trait, stored on the deferring object"""
    if name not in _PCLS:
        from traits.api import Instance, PrototypedFrom
        _PCLS[name] = type("Deferring", (HasTraits,), {
            "p": Instance(owner_class(name), ()),
            "x": PrototypedFrom("p"), "other": L.Int(7)})
    return _PCLS[name]


def snap(obj):
    return sorted((k, id(v)) for k, v in obj.__dict__.items())


SUB = ["None", "True", "i0", "i1", "i2", "i3", "f0.0", "f0.5", "f1.5",
       "f2.0", "fnan", "finf", "f2-eps", "f0+eps", "sa", "sab", "s", "sx",
       "s1", "ba", "t(1,a)", "t(1,2)", "t(2,1)", "A0", "B0", "C0", "FOO0",
       "clsB", "fn", "mod", "date", "datetime", "np.int64", "np.float64nan",
       "np.bool_", "IntSub(2)", "Idx(2)", "Flt(nan)", "l[1]", "a1d_f2",
       "a1d_f1", "a2d_i22", "sfile", "sdir"]


def one(ctx, cname, label, route, pre):
    c = L.CONFIGS[cname]
    cls = owner_class(cname)
    ctx.ev()
    ctx.tr()
    v = L.value(label)
    obj = None
    if route == "proto":
        cls = proto_class(cname)
    if route != "ctor":
        obj = cls()
        if pre == "stored":
            obj.x = L.value(c.good)
        for k in c.owner_attrs:      # materialise the bounds' defaults
            getattr(obj, k)
        obj.other
        before = snap(obj)
        before_x = obj.__dict__.get("x", L)
    exc = None
    try:
        if route in ("setattr", "proto"):
            obj.x = v
        elif route == "trait_set":
            obj.trait_set(x=v)
        elif route == "trait_setq":
            obj.trait_setq(x=v)
        else:
            obj = cls(x=v)
    except BaseException as e:
        exc = e
    case = {"config": cname, "value": label, "route": route, "pre": pre}

    def bad(kind, msg):
        ctx.violation("C01:%s:%s:%s" % (kind, c.kind, vclass(label)), msg,
                      **dict(case, observed=repr(exc) if exc else
                             "stored %r" % (getattr(obj, "x", None),)))

    model = c.model(v) if c.model is not None else L.UNSPEC
    may_raise = None
    if isinstance(model, tuple) and model[0] == "raises":
        may_raise, model = model[1], L.UNSPEC
    if exc is not None:
        if isinstance(exc, TraitError):
            ctx.outcome("rejected")
            ctx.nontriv((cname, label, "rejected"))
            if "'x'" not in str(exc) and " x " not in str(exc):
                bad("error-text", "TraitError does not name the attribute: "
                    "%s" % str(exc)[:120])
            if model not in (L.UNSPEC, L.REJECT):
                bad("rejected-valid", "documented as acceptable (-> %r) but "
                    "rejected" % (model[1],))
        else:
            ctx.outcome("protocol-exception")
            ctx.nontriv((cname, label, type(exc).__name__))
            if label not in L.PROTO and type(exc) is not may_raise:
                bad("foreign-exception", "%s raised for a value whose own "
                    "protocol cannot raise" % type(exc).__name__)
        if route != "ctor":
            if snap(obj) != before:
                bad("rejection-had-effect", "failed assignment changed the "
                    "object's __dict__")
            if obj.other != 7:
                bad("rejection-had-effect", "another attribute changed")
        return
    # accepted: read back
    try:
        stored = obj.x
    except BaseException as e:
        bad("read-raises", "reading back raised %r" % (e,))
        return
    if c.dom is not None:
        try:
            ok = c.dom(stored)
        except Exception as e:
            ok = False
        if not ok:
            bad("out-of-domain", "stored value %r (%s) is outside the "
                "declared domain" % (stored, type(stored).__name__))
    if model == L.REJECT:
        bad("accepted-invalid", "documented as invalid but accepted "
            "(stored %r)" % (stored,))
    elif model is not L.UNSPEC:
        if model[0] == "same":
            if stored is not v and not L.same_or_nan(stored, v):
                bad("conversion", "stored %r, expected the value itself"
                    % (stored,))
        elif not L.same_or_nan(stored, model[1]):
            bad("conversion", "stored %r (%s), documented conversion is %r "
                "(%s)" % (stored, type(stored).__name__, model[1],
                          type(model[1]).__name__))
    if c.shadow is not None and route != "proto":
        ctx.outcome("shadow-checked")
        sh = getattr(obj, "x_")
        want = c.shadow(stored)
        if isinstance(want, tuple) and want and want[0] == "isinstance":
            if not isinstance(sh, want[1]):
                bad("shadow", "shadow value %r is not adapted" % (sh,))
        elif not L.same_or_nan(sh, want):
            bad("shadow", "shadow value %r != mapping of %r" % (sh, stored))
    if obj.other != 7:
        bad("other-attribute", "another attribute changed")
    if c.kind == "Range-dynamic" and isinstance(stored, (int, float)) and \
            stored == stored and abs(stored) < 1e6:
        # "no value outside the declared domain is ever readable": when a
        # bound moves past the stored value, reads stay inside the bounds
        ctx.tr()
        try:
            if "hi_" in c.owner_attrs:
                lo_now = getattr(obj, "lo_", None)
                new_hi = stored - 1 if lo_now is None else \
                    max(lo_now, stored - 1)
                obj.hi_ = type(c.owner_attrs["hi_"][1])(new_hi)
                r = obj.x
                if r > obj.hi_:
                    bad("moved-bound", "upper bound lowered to %r, the "
                        "attribute still reads %r" % (obj.hi_, r))
                elif r == obj.hi_ and "xh=1" in cname:
                    bad("moved-bound-excluded", "upper bound (excluded) "
                        "lowered to %r, the attribute now reads the excluded "
                        "bound itself" % (obj.hi_,))
                obj.hi_ = c.owner_attrs["hi_"][1]
            if "lo_" in c.owner_attrs:
                hi_now = getattr(obj, "hi_", None)
                new_lo = stored + 1 if hi_now is None else \
                    min(hi_now, stored + 1)
                obj.lo_ = type(c.owner_attrs["lo_"][1])(new_lo)
                r = obj.x
                if r < obj.lo_:
                    bad("moved-bound", "lower bound raised to %r, the "
                        "attribute still reads %r" % (obj.lo_, r))
                elif r == obj.lo_ and "xl=1" in cname:
                    bad("moved-bound-excluded", "lower bound (excluded) "
                        "raised to %r, the attribute now reads the excluded "
                        "bound itself" % (obj.lo_,))
            ctx.outcome("moved-bound-checked")
        except Exception as e:
            bad("moved-bound-raises", "moving a bound raised %r" % (e,))
    same = stored is v
    ctx.outcome("accepted-same" if same else "accepted-converted")
    if not same:
        ctx.nontriv((cname, label, "converted"))
    else:
        ctx.nontriv((cname, label, "accepted"))


import re as _re

_ADDR = _re.compile(r"0x[0-9a-fA-F]+")


def _noaddr(x):
    """str()/repr() conversions of fresh objects differ by their address"""
    if isinstance(x, str):
        return _ADDR.sub("0x", x)
    if isinstance(x, bytes):
        return _re.sub(rb"0x[0-9a-fA-F]+", b"0x", x)
    if isinstance(x, tuple):
        return tuple(_noaddr(e) for e in x)
    return x


def quick_outcome(cname, label):
    """outcome of a plain assignment on a fresh object: ("exc", class) or
    ("ok", stored)"""
    obj = owner_class(cname)()
    v = L.value(label)
    try:
        obj.x = v
    except BaseException as e:
        return ("exc", type(e), False)
    try:
        r = obj.x
        return ("ok", r, r is v)
    except BaseException as e:
        return ("exc-read", type(e), False)


def history_independence(ctx, cname):
    """The verdict and the stored result for a value do not depend on what
    was assigned before, to this object or (the trait definition is shared)
    to another one: the whole lattice is assigned again in reverse order and
    must give what it gave in the first pass."""
    c = L.CONFIGS[cname]
    labels = [l for l in L.LABELS if l not in c.skip]
    first = {}
    for label in labels:
        first[label] = quick_outcome(cname, label)
    for label in reversed(labels):
        ctx.tr()
        a, b = first[label], quick_outcome(cname, label)
        same = a[0] == b[0] and (
            (a[0] != "ok" and a[1] is b[1]) or
            (a[0] == "ok" and ((a[2] and b[2]) or
                               (a[2] == b[2] and
                                L.same_or_nan(_noaddr(a[1]),
                                              _noaddr(b[1]))))))
        if not same and a[0] == "ok" and b[0] == "ok" and \
                type(a[1]) is type(b[1]) and not isinstance(
                    a[1], (int, float, complex, str, bytes, tuple, bool,
                           type(None))):
            continue        # fresh containers / adapters per assignment
        if not same:
            ctx.violation(
                "C01:history-dependent:%s:%s" % (c.kind, vclass(label)),
                "assigning %s to a fresh object gave %r in a first pass over "
                "the lattice and %r in a second pass in reverse order"
                % (label, a, b), config=cname, value=label,
                route="setattr", pre="fresh", history="reverse-pass")


def vclass(label):
    for p in ("np.", "Idx", "Flt", "Cpx", "a0d", "a1d", "a2d", "l[", "t("):
        if label.startswith(p):
            return p.strip(".([")
    if label[0] in "ifsbc" and label not in ("fn", "clsA", "clsB", "clsC",
                                             "clsint", "set{1}", "sfile",
                                             "sdir", "snofile"):
        return {"i": "int", "f": "float", "s": "str", "b": "bytes",
                "c": "complex"}[label[0]]
    return label


def plan(cname, tier):
    c = L.CONFIGS[cname]
    labels = [l for l in L.LABELS if l not in c.skip]
    out = []
    for label in labels:
        out.append((label, "setattr", "fresh"))
        if c.good is not None:
            out.append((label, "setattr", "stored"))
        if tier == "thorough" or label in SUB:
            out.append((label, "ctor", "fresh"))
            out.append((label, "trait_set", "fresh"))
            if not c.owner_attrs and "proto" not in c.no_routes:
                out.append((label, "proto", "fresh"))
            if c.shadow is not None or tier == "thorough":
                out.append((label, "trait_setq", "fresh"))
                if c.good is not None:
                    out.append((label, "trait_setq", "stored"))
            if tier == "thorough" and c.good is not None:
                out.append((label, "trait_set", "stored"))
    return out


def shards(tier):
    if tier == "thorough":
        L.add_triples()
    names = L.NAMES
    n = 32
    return [{"chunk": i, "of": n} for i in range(n)]


def run_shard(ctx, shard, tier):
    if tier == "thorough":
        L.add_triples()
    import warnings
    names = L.NAMES[shard["chunk"]::shard["of"]]
    for cname in names:
        ctx.state(cname)
        for label, route, pre in plan(cname, tier):
            ctx.case({"config": cname, "value": label, "route": route,
                      "pre": pre})
            one(ctx, cname, label, route, pre)
        ctx.case({"config": cname, "value": "*", "route": "setattr",
                  "pre": "fresh", "history": "reverse-pass"})
        history_independence(ctx, cname)
    if names:
        ctx.sample({"config": names[0], "value": "f2-eps",
                    "route": "setattr", "pre": "fresh"})
    ctx.depth_completed = 2


def replay(rec):
    from mc.ctx import Ctx
    ctx = Ctx("C01", None, "quick", 0)
    c = rec["case"]
    if c.get("history"):
        history_independence(ctx, c["config"])
    else:
        one(ctx, c["config"], c["value"], c["route"], c["pre"])
    for v in ctx.violations.values():
        print("  violation:", v["sig"], v["msg"])
        print("  observed:", v["record"].get("observed"))
    return not ctx.violations
