"""C17 — adaptation finds an adapter chain iff one exists, and a shortest one."""
import abc
import itertools

from traits.adaptation.api import (AdaptationError, AdaptationManager,
                                   get_global_adaptation_manager,
                                   set_global_adaptation_manager)
from traits.api import (AdaptsTo, BaseInstance, Either, HasTraits, Instance,
                        List, PrototypedFrom, Str, Supports, TraitError)

LEVEL = "exploration"
RULE = ("per type universe: every sequence (= multiset in every registration "
        "order) of up to N offers over all ordered type pairs x factory kind "
        "{adapter, conditional returning None}, x every source object type x "
        "every target, each on a fresh AdaptationManager; non-trivial = "
        "configuration in which some applicable chain exists or a "
        "conditional factory blocks one; distinct = distinct (universe, offer "
        "sequence, source, target)")
EXPLANATION = ("exhaustive enumeration; reference = brute-force enumeration "
               "of all offer sequences without repetition whose issubclass "
               "chain is applicable and whose factories all succeed")
BOUNDS = {"quick": "7 universes (linear, diamond, ABC/virtual, falsy "
                   "adapter, branching, late ABC registration, mixin + virtual base), <=3 offers "
                   "(linear, mixin), <=2 offers (others)",
          "thorough": "<=4 offers on a reduced pair set (linear), <=3 "
                      "(others)"}
ASSUMPTIONS = ["factories without side effects; conditions independent of "
               "the adaptee"]
MIN_OUTCOMES = {t: ["self-provides", "adapted-1", "adapted-2", "adapted-3",
                    "no-chain-error", "no-chain-default",
                    "conditional-blocked", "specific-preferred",
                    "trait-agrees", "shadow-refreshed"]
                for t in ("quick", "thorough")}
TIMEOUT = {"quick": 1200, "thorough": 7200}


class Base17:
    def __init__(self, adaptee=None, offer=None):
        self.adaptee = adaptee
        self.offer = offer


# linear universe
class S0(Base17):
    pass


class S1(S0):
    pass


class S2(S1):
    pass


class X(Base17):
    pass


class Y(Base17):
    pass


class T(Base17):
    pass


class Z(Base17):
    """falsy instances"""

    def __len__(self):
        return 0


# diamond universe
class D0(Base17):
    pass


class D1(D0):
    pass


class D2(D0):
    pass


class D3(D1, D2):
    pass


# ABC / virtual registration universe
class IP(abc.ABC):
    pass


class IQ(abc.ABC):
    pass


class V(Base17):
    pass


class W(Base17):
    pass


IP.register(V)       # V provides IP virtually
IQ.register(W)

# branching universe: a source with three outgoing non-terminal offers
class BS(Base17):
    pass


class BA(Base17):
    pass


class BB(Base17):
    pass


class BC(Base17):
    pass


class BX(Base17):
    pass


class BT(Base17):
    pass


# multiple inheritance with a mixin in front, plus a virtual base: three
# single-step candidates at once (base, derived, unrelated ABC)
class MB(Base17):
    pass


class MD(MB):
    pass


class MMix(Base17):
    pass


class IU(abc.ABC):
    pass


class ML(MMix, MD):
    pass


class MT(Base17):
    pass


IU.register(ML)

BRANCH_EDGES = [(BS, BA), (BS, BB), (BS, BC), (BA, BX), (BB, BX), (BX, BT),
                (BC, BT), (BA, BB)]


UNIVERSES = {
    "linear": {"types": [S0, S1, S2, X, Y, T], "sources": [S2, S1, X],
               "targets": [T, X, S0]},
    "diamond": {"types": [D0, D1, D2, D3, X, T], "sources": [D3, D1],
                "targets": [T, X]},
    "abc": {"types": [S0, S1, V, W, IP, IQ], "sources": [S1, V],
            "targets": [IP, IQ, W]},
    "falsy": {"types": [S0, S1, X, Z], "sources": [S1], "targets": [Z]},
    "mixin-abc": {"types": [MB, MD, IU, ML, MT], "sources": [ML],
                  "targets": [MT]},
}
#: "cond": a conditional factory that refuses the bare source object and
#: accepts anything that is itself an adapter
KINDS = ("adapter", "none", "cond")


def concrete(tp):
    """a concrete class whose instances provide `tp`"""
    if tp is IP:
        return V
    if tp is IQ:
        return W
    if tp is IU:
        return ML
    return tp


def all_offers(uni):
    ts = UNIVERSES[uni]["types"]
    out = []
    for f in ts:
        for g in ts:
            if f is g or issubclass(g, f) and g is not f and False:
                continue
            for kind in KINDS:
                out.append((f, g, kind))
    return out


def make_factory(idx, g, kind):
    cls = concrete(g)
    if kind == "none":
        return lambda adaptee: None
    if kind == "cond":
        return lambda adaptee: (cls(adaptee, idx)
                                if getattr(adaptee, "offer", None) is not None
                                else None)
    return lambda adaptee: cls(adaptee, idx)


def chain_of(result, original):
    chain = []
    cur = result
    while cur is not original and isinstance(cur, Base17) and \
            cur.offer is not None:
        chain.append(cur.offer)
        cur = cur.adaptee
    return list(reversed(chain)), cur is original


def provides(tp, protocol):
    return issubclass(tp, protocol)


def reference(offers, src_type, target):
    """All successful chains (tuples of offer indices) and whether some
    applicable chain is blocked by a conditional factory."""
    good, blocked = [], False

    def rec(cur_type, used, path):
        nonlocal blocked
        for i, (f, g, kind) in enumerate(offers):
            if i in used or not provides(cur_type, f):
                continue
            p2 = path + [i]
            ok = all(offers[j][2] == "adapter" or
                     (offers[j][2] == "cond" and pos > 0)
                     for pos, j in enumerate(p2))
            if provides(g, target):
                if ok:
                    good.append(tuple(p2))
                else:
                    blocked = True
                # the search also continues through this offer
            if len(p2) < len(offers):
                rec(g, used | {i}, p2)
    rec(src_type, frozenset(), [])
    return good, blocked


def mro_rank(src_type, f):
    """specificity of offer source f for src_type: distance along the mro"""
    for i, t in enumerate(src_type.__mro__):
        if t is f:
            return i
    # virtual base: least specific
    return len(src_type.__mro__)


def check(ctx, uni, offers, src_type, target):
    ctx.ev()
    ctx.tr()
    mgr = AdaptationManager()
    for i, (f, g, kind) in enumerate(offers):
        mgr.register_factory(make_factory(i, g, kind), f, g)
    obj = src_type()
    case = {"universe": uni,
            "offers": [(f.__name__, g.__name__, k) for f, g, k in offers],
            "source": src_type.__name__, "target": target.__name__}

    def bad(kind, msg):
        ctx.violation("C17:%s:%s" % (kind, uni), msg, **case)
    try:
        res = mgr.adapt(obj, target)
        exc = None
    except AdaptationError as e:
        res, exc = None, e
    except Exception as e:
        bad("raises", "adapt raised %r" % (e,))
        return
    if provides(src_type, target):
        ctx.outcome("self-provides")
        if res is not obj:
            bad("self", "object already provides the protocol but adapt "
                "returned %r" % (res,))
        return
    good, blocked = reference(offers, src_type, target)
    if good or blocked:
        ctx.nontriv((uni, tuple(case["offers"]), case["source"],
                     case["target"]))
    if blocked and not good:
        ctx.outcome("conditional-blocked")
    if not good:
        if exc is None:
            bad("adapter-from-nowhere", "no applicable chain of succeeding "
                "offers exists but adapt returned %r" % (res,))
            return
        ctx.outcome("no-chain-error")
        sentinel = object()
        try:
            r2 = mgr.adapt(obj, target, sentinel)
        except Exception as e:
            bad("default-raises", "adapt with a default raised %r" % (e,))
            return
        if r2 is not sentinel:
            bad("default", "adapt with a default returned %r" % (r2,))
        else:
            ctx.outcome("no-chain-default")
        return
    if exc is not None:
        bad("chain-missed", "chain(s) %r exist but adapt raised "
            "AdaptationError" % (good[:3],))
        return
    if not isinstance(res, concrete(target)) and not provides(type(res),
                                                              target):
        bad("wrong-protocol", "the adapter %r does not provide the target"
            % (res,))
        return
    chain, rooted = chain_of(res, obj)
    if not rooted:
        bad("not-rooted", "the adapter chain does not start at the adaptee")
        return
    if tuple(chain) not in good:
        bad("chain-not-valid", "chain %r is not among the valid chains %r"
            % (chain, good[:4]))
        return
    shortest = min(len(c) for c in good)
    ctx.outcome("adapted-%d" % min(len(chain), 3))
    if len(chain) != shortest:
        bad("not-shortest", "adapt used %d adapters %r, a chain of %d exists "
            "(%r)" % (len(chain), chain, shortest,
                      [c for c in good if len(c) == shortest][:2]))
        return
    if len(chain) == 1:
        singles = [c[0] for c in good if len(c) == 1]
        if len(singles) > 1:
            mine = offers[chain[0]][0]
            # "an offer registered for a more specific type is preferred to
            # one for its base type": unrelated types are ties
            better = [i for i in singles if offers[i][0] is not mine
                      and issubclass(offers[i][0], mine)]
            if better:
                bad("less-specific", "single-step offer registered for %s "
                    "used although one for its subclass %s exists"
                    % (mine.__name__, offers[better[0]][0].__name__))
            elif any(offers[i][0] is not mine and
                     issubclass(mine, offers[i][0]) for i in singles):
                ctx.outcome("specific-preferred")


# ------------------------------------------------------------ trait level
def trait_checks(ctx, uni, offers, src_type, target):
    """Supports / AdaptsTo / Instance(adapt=) / BaseInstance(adapt=) apply
    exactly adapt() to assigned values (global manager swapped in)."""
    old = get_global_adaptation_manager()
    mgr = AdaptationManager()
    set_global_adaptation_manager(mgr)
    try:
        for i, (f, g, kind) in enumerate(offers):
            mgr.register_factory(make_factory(i, g, kind), f, g)

        class H(HasTraits):
            sup = Supports(target)
            ada = AdaptsTo(target)
            ins = Instance(target, adapt="yes")
            bas = BaseInstance(target, adapt="yes")
            cmp1 = Either(Str, Supports(target))
            cmp2 = Either(Supports(target), Str)
            many = List(Supports(target))

        class Holder(HasTraits):
            proto = Instance(H, ())
            ada = PrototypedFrom("proto")
        case = {"universe": uni,
                "offers": [(f.__name__, g.__name__, k) for f, g, k in offers],
                "source": src_type.__name__, "target": target.__name__}
        obj = src_type()
        want = mgr.adapt(obj, target, None)
        for name in ("sup", "ada", "ins", "bas"):
            ctx.tr()
            h = H()
            try:
                setattr(h, name, obj)
                acc = True
            except TraitError:
                acc = False
            except Exception as e:
                ctx.violation("C17:trait-raises:%s" % name,
                              "assignment raised %r" % (e,), **case)
                continue
            if acc != (want is not None):
                ctx.violation("C17:trait-verdict:%s" % name,
                              "%s %s the value but adapt() %s" % (
                                  name, "accepted" if acc else "rejected",
                                  "succeeds" if want is not None
                                  else "finds no adapter"), **case)
                continue
            ctx.outcome("trait-agrees")
            if not acc:
                continue
            stored = getattr(h, name)
            if name == "ada":
                if stored is not obj:
                    ctx.violation("C17:trait-stored:ada", "AdaptsTo stored "
                                  "%r instead of the original" % (stored,),
                                  **case)
                shadow = h.ada_
                if type(shadow) is not type(want):
                    ctx.violation("C17:trait-shadow:ada", "shadow %r, adapt "
                                  "gives %r" % (shadow, want), **case)
            else:
                if type(stored) is not type(want) or \
                        chain_of(stored, obj)[0] != chain_of(want, obj)[0]:
                    ctx.violation("C17:trait-stored:%s" % name,
                                  "stored %r, adapt() gives %r" % (stored,
                                                                    want),
                                  **case)
                if name == "sup" and h.sup_ is not obj:
                    ctx.violation("C17:trait-shadow:sup", "Supports shadow "
                                  "is not the original", **case)
        # the same traits as alternatives of a compound trait and as list
        # items; values that are neither strings nor adaptable are refused
        for name in ("cmp1", "cmp2", "many"):
            for val in (obj, 5, True, 2 ** 70):
                ctx.tr()
                h = H()
                try:
                    setattr(h, name, [val] if name == "many" else val)
                    acc = True
                except TraitError:
                    acc = False
                except Exception as e:
                    ctx.violation("C17:trait-raises:%s" % name,
                                  "assignment raised %r" % (e,), **case)
                    continue
                exp = val is obj and want is not None
                if acc != exp:
                    ctx.violation(
                        "C17:trait-verdict:%s" % name,
                        "%s %s %r but adapt() %s" % (
                            name, "accepted" if acc else "rejected",
                            val if val is not obj else "the source object",
                            "succeeds" if exp else "finds no adapter"),
                        **case)
                    continue
                ctx.outcome("trait-agrees")
                if acc:
                    stored = getattr(h, name)
                    stored = stored[0] if name == "many" else stored
                    if type(stored) is not type(want) or \
                            chain_of(stored, obj)[0] != chain_of(want, obj)[0]:
                        ctx.violation("C17:trait-stored:%s" % name,
                                      "stored %r, adapt() gives %r"
                                      % (stored, want), **case)
        # AdaptsTo reached through PrototypedFrom: the deferring object
        # stores the original value, as the trait itself would
        if want is not None:
            ctx.tr()
            d = Holder()
            try:
                d.ada = obj
                if d.ada is not obj:
                    ctx.violation("C17:trait-stored:ada-prototyped",
                                  "AdaptsTo through PrototypedFrom stored %r "
                                  "instead of the original" % (d.ada,),
                                  **case)
            except Exception as e:
                ctx.violation("C17:trait-raises:ada-prototyped",
                              "assignment raised %r" % (e,), **case)
        # re-assignment of the same object after the offers changed must
        # re-apply adapt() (the shadow follows the current registrations)
        if want is not None and not provides(src_type, target):
            h = H()
            h.ada = obj
            first = chain_of(h.ada_, obj)[0]
            extra = len(offers)
            mgr.register_factory(make_factory(extra, target, "adapter"),
                                 src_type, target)
            now = mgr.adapt(obj, target, None)
            h.ada = obj
            ctx.tr()
            if chain_of(h.ada_, obj)[0] != chain_of(now, obj)[0]:
                ctx.violation("C17:trait-shadow-stale:ada", "after a new "
                              "offer was registered, re-assigning the same "
                              "object left the shadow built by chain %r; "
                              "adapt() now uses %r" % (
                                  chain_of(h.ada_, obj)[0],
                                  chain_of(now, obj)[0]), **case)
            elif chain_of(now, obj)[0] != first:
                ctx.outcome("shadow-refreshed")
    finally:
        set_global_adaptation_manager(old)


def late_registration(ctx):
    """a protocol is registered for a class (ABC.register) *after* a first,
    negative query: the answer must follow the registration"""
    for rounds in range(3):
        ctx.ev()
        ctx.tr()
        IR = abc.ABCMeta("IR%d" % rounds, (), {})
        R = type("R%d" % rounds, (Base17,), {})
        mgr = AdaptationManager()
        obj = R()
        first = mgr.adapt(obj, IR, None)
        sup0 = mgr.supports_protocol(obj, IR)
        IR.register(R)
        second = AdaptationManager().adapt(obj, IR, None)
        third = mgr.adapt(obj, IR, None)
        if first is not None or sup0:
            ctx.violation("C17:late-registration:before", "object adapted "
                          "to a protocol it does not provide",
                          universe="late", offers=[], source="R", target="IR")
        elif second is not obj or third is not obj or \
                not mgr.supports_protocol(obj, IR):
            ctx.violation("C17:late-registration:stale", "after "
                          "IR.register(R) adapt(obj, IR) gives %r / %r "
                          "instead of the object itself" % (second, third),
                          universe="late", offers=[], source="R", target="IR")
        else:
            ctx.outcome("self-provides")
    # the class is registered with the protocol an *offer* adapts from
    for rounds in range(3):
        ctx.ev()
        ctx.tr()
        IP = abc.ABCMeta("IP%d" % rounds, (), {})
        IT = abc.ABCMeta("IT%d" % rounds, (), {})
        R = type("Q%d" % rounds, (Base17,), {})

        class Ad:
            def __init__(self, adaptee):
                self.adaptee = adaptee
        IT.register(Ad)
        mgr = AdaptationManager()
        mgr.register_factory(Ad, IP, IT)
        obj = R()
        first = mgr.adapt(obj, IT, None)
        IP.register(R)
        second = mgr.adapt(obj, IT, None)
        if first is not None:
            ctx.violation("C17:late-registration:before", "object adapted "
                          "through an offer for a protocol it does not "
                          "provide", universe="late", offers=[["IP", "IT"]],
                          source="Q", target="IT")
        elif not isinstance(second, Ad) or second.adaptee is not obj or \
                not mgr.supports_protocol(obj, IT):
            ctx.violation("C17:late-registration:stale-offer", "after "
                          "IP.register(Q) an offer IP -> IT applies to the "
                          "object, but adapt gives %r" % (second,),
                          universe="late", offers=[["IP", "IT"]],
                          source="Q", target="IT")
        else:
            ctx.outcome("adapted-1")


def branch_universe(ctx, chunk, of):
    """all ordered selections of up to 5 distinct edges of a branching offer
    graph (adapter factories only)"""
    n = 0
    for k in range(1, 6):
        for sel in itertools.permutations(BRANCH_EDGES, k):
            n += 1
            if n % of != chunk:
                continue
            offers = tuple((f, g, "adapter") for f, g in sel)
            ctx.case({"universe": "branch", "offers": [
                (f.__name__, g.__name__, kk) for f, g, kk in offers]})
            check(ctx, "branch", offers, BS, BT)


def shards(tier):
    out = [{"universe": "late"}]
    out += [{"universe": "branch", "chunk": i, "of": 8} for i in range(8)]
    for uni in UNIVERSES:
        offs = all_offers(uni)
        for i in range(len(offs)):
            out.append({"universe": uni, "first": i})
    return out


def run_shard(ctx, shard, tier):
    uni = shard["universe"]
    if uni == "late":
        late_registration(ctx)
        ctx.depth_completed = 1
        return
    if uni == "branch":
        branch_universe(ctx, shard["chunk"], shard["of"])
        ctx.depth_completed = 5
        return
    offs = all_offers(uni)
    U = UNIVERSES[uni]
    maxn = {"linear": 3, "diamond": 2, "abc": 2, "falsy": 2,
            "mixin-abc": 3}[uni]
    if tier == "thorough":
        maxn += 1
    first = offs[shard["first"]]
    # thorough linear with 4 offers: restrict later offers to adapter kind
    plain_offs = [o for o in offs if o[2] != "cond"]
    adapters = [o for o in offs if o[2] == "adapter"]
    for n in range(1, maxn + 1):
        # the last of three (or more) offers is an unconditional adapter; a
        # "cond" offer may stand first or second
        pools = [offs] * (n - 1)
        if n >= 3:
            pools = [offs] * (n - 2) + [adapters]
        if n >= 4 or (tier == "thorough" and n >= 3 and uni != "linear"):
            pools = [adapters] * (n - 1)
        for rest in itertools.product(*pools):
            offers = (first,) + rest
            ctx.case({"universe": uni, "offers": [
                (f.__name__, g.__name__, k) for f, g, k in offers]})
            ctx.state((uni, tuple((f.__name__, g.__name__, k)
                                  for f, g, k in offers)))
            for s in U["sources"]:
                for t in U["targets"]:
                    check(ctx, uni, offers, s, t)
            if n <= 2:
                for s in U["sources"][:1]:
                    for t in U["targets"][:2]:
                        trait_checks(ctx, uni, offers, s, t)
    ctx.sample({"universe": uni, "offers": [(first[0].__name__,
                                            first[1].__name__, first[2])],
                "source": U["sources"][0].__name__,
                "target": U["targets"][0].__name__})
    ctx.depth_completed = maxn


def replay(rec):
    from mc.ctx import Ctx
    ctx = Ctx("C17", None, "quick", 0)
    names = {c.__name__: c for c in (S0, S1, S2, X, Y, T, Z, D0, D1, D2, D3,
                                     IP, IQ, V, W, BS, BA, BB, BC, BX, BT,
                                     MB, MD, MMix, IU, ML, MT)}
    if rec.get("universe") == "late":
        late_registration(ctx)
        for v in ctx.violations.values():
            print("  violation:", v["sig"], v["msg"])
        return not ctx.violations
    offers = tuple((names[f], names[g], k) for f, g, k in rec["offers"])
    check(ctx, rec["universe"], offers, names[rec["source"]],
          names[rec["target"]])
    trait_checks(ctx, rec["universe"], offers, names[rec["source"]],
                 names[rec["target"]])
    for v in ctx.violations.values():
        print("  violation:", v["sig"], v["msg"])
    return not ctx.violations
