"""Shared value lattice and trait configuration grid for C01 / C03 / C14.

VALUES: label -> factory (fresh object per call where mutable).
CONFIGS: name -> Config(trait factory, in-domain predicate on *stored* values,
         optional acceptance model, optional conversion model).
Models are written from the documentation of each trait type, on plain
Python (isinstance / math / operator), not by transcribing the validators.
"""
import datetime
import math
import operator
import os
import pathlib
import re
import sys
import types

import numpy as np

from traits.api import (
    Any, Array, ArrayOrNone, BaseBool, BaseBytes, BaseCBool, BaseCComplex,
    BaseCFloat, BaseCInt, BaseCStr, BaseCallable, BaseComplex, BaseEnum,
    BaseFloat, BaseInstance, BaseInt, BaseRange, BaseStr, BaseTuple, Bool,
    Bytes, CArray, CBool, CBytes, CComplex, CFloat, CInt, CStr, Callable,
    Complex, Date, Datetime, Directory, Either, Enum, File, Float, HasTraits,
    Instance, Int, Map, Module, PrefixList, PrefixMap, Range, Regex, Str,
    String, This, Time, Tuple, Type, Union, ValidatedTuple, Supports,
    AdaptsTo, Interface, provides, register_factory, Adapter)

HERE = os.path.dirname(os.path.abspath(__file__))


# ----------------------------------------------------------------- classes
class A(HasTraits):
    pass


class B(A):
    pass


class C(HasTraits):
    pass


class IFoo(Interface):
    pass


@provides(IFoo)
class FooImpl(HasTraits):
    pass


class CToFoo(Adapter):
    """adapts C to IFoo (registered below)"""


provides(IFoo)(CToFoo)
register_factory(CToFoo, C, IFoo)


class IntSub(int):
    pass


class FloatSub(float):
    pass


class StrSub(str):
    pass


class TupSub(tuple):
    pass


class BoolLike:
    def __bool__(self):
        return True


class Idx:
    def __init__(self, r):
        self.r = r

    def __index__(self):
        if isinstance(self.r, type) and issubclass(self.r, BaseException):
            raise self.r("from __index__")
        return self.r


class Flt:
    def __init__(self, r):
        self.r = r

    def __float__(self):
        if isinstance(self.r, type) and issubclass(self.r, BaseException):
            raise self.r("from __float__")
        return self.r


class Cpx:
    def __init__(self, r):
        self.r = r

    def __complex__(self):
        if isinstance(self.r, type) and issubclass(self.r, BaseException):
            raise self.r("from __complex__")
        return self.r


def a_function():
    return 1


A0, B0, C0, FOO0 = A(), B(), C(), FooImpl()
NAN = float("nan")
EXISTING_FILE = os.path.join(HERE, "lattice.py")
EXISTING_DIR = HERE

# label -> factory ; "proto" marks values whose own conversion protocol may
# raise (their exception may pass through unchanged)
VALUES = {}
PROTO = set()


def _v(label, f, proto=False):
    VALUES[label] = f
    if proto:
        PROTO.add(label)


for _lbl, _val in [
    ("None", None), ("True", True), ("False", False),
    ("i-1", -1), ("i0", 0), ("i1", 1), ("i2", 2), ("i3", 3), ("i10", 10),
    ("i2^31", 2 ** 31), ("i2^63", 2 ** 63), ("i2^64", 2 ** 64),
    ("i-2^63-1", -2 ** 63 - 1),
    ("f-0.0", -0.0), ("f0.0", 0.0), ("f0.5", 0.5), ("f1.0", 1.0),
    ("f1.5", 1.5), ("f2.0", 2.0), ("f2.5", 2.5), ("f-1.5", -1.5),
    ("f-2.0", -2.0), ("finf", float("inf")), ("f-inf", float("-inf")),
    ("fnan", NAN), ("fsub", 5e-324), ("f1e308", 1e308),
    ("f2-eps", math.nextafter(2.0, -math.inf)),
    ("f2+eps", math.nextafter(2.0, math.inf)),
    ("f0+eps", math.nextafter(0.0, math.inf)),
    ("f0-eps", math.nextafter(0.0, -math.inf)),
    ("f1.5-eps", math.nextafter(1.5, -math.inf)),
    ("f1.5+eps", math.nextafter(1.5, math.inf)),
    ("f-1.5-eps", math.nextafter(-1.5, -math.inf)),
    ("f-1.5+eps", math.nextafter(-1.5, math.inf)),
    ("c1j", 1j), ("c1+0j", 1 + 0j),
    ("s", ""), ("sa", "a"), ("sab", "ab"), ("saab", "aab"), ("sb", "b"),
    ("sabc", "abc"), ("sabd", "abd"), ("sx", "x"), ("sxyz", "xyz"),
    ("s1", "1"), ("s1.5", "1.5"), ("syes", "yes"), ("sone", "one"),
    ("b", b""), ("ba", b"a"), ("bab", b"ab"),
    ("t()", ()), ("t(1,)", (1,)), ("t(1,a)", (1, "a")), ("t(a,1)", ("a", 1)),
    ("t(1.0,2.0)", (1.0, 2.0)), ("t(2,1)", (2, 1)), ("t(1,2)", (1, 2)),
    ("t(1,a,2)", (1, "a", 2)), ("t(None,a)", (None, "a")),
    ("t(1,(a,2))", (1, ("a", 2))), ("t(True,a)", (True, "a")),
    ("A0", A0), ("B0", B0), ("C0", C0), ("FOO0", FOO0),
    ("clsA", A), ("clsB", B), ("clsC", C), ("clsint", int),
    ("fn", a_function), ("len", len), ("mod", math), ("modsys", sys),
    ("date", datetime.date(2020, 1, 2)),
    ("datetime", datetime.datetime(2020, 1, 2, 3, 4)),
    ("time", datetime.time(3, 4)),
    ("np.int8", np.int8(1)), ("np.int64", np.int64(2)),
    ("np.uint64max", np.uint64(2 ** 64 - 1)), ("np.float32", np.float32(1.5)),
    ("np.float64", np.float64(0.5)), ("np.float64nan", np.float64("nan")),
    ("np.bool_", np.bool_(True)), ("np.str_", np.str_("a")),
    ("np.complex128", np.complex128(1j)),
    ("path_file", pathlib.Path(EXISTING_FILE)),
    ("path_dir", pathlib.Path(EXISTING_DIR)),
    ("sfile", EXISTING_FILE), ("sdir", EXISTING_DIR),
    ("snofile", "/nonexistent/zzz"),
]:
    _v(_lbl, (lambda x: (lambda: x))(_val))

_v("i10^400", lambda: 10 ** 400, proto=True)
_v("i-10^400", lambda: -10 ** 400, proto=True)
_v("IntSub(2)", lambda: IntSub(2))
_v("FloatSub(1.5)", lambda: FloatSub(1.5))
_v("StrSub(a)", lambda: StrSub("a"))
_v("Idx(2)", lambda: Idx(2))
_v("Idx(True)", lambda: Idx(True))
_v("Idx('a')", lambda: Idx("a"), proto=True)
_v("Idx(ValueError)", lambda: Idx(ValueError), proto=True)
_v("Idx(ZeroDivisionError)", lambda: Idx(ZeroDivisionError), proto=True)
_v("Idx(TypeError)", lambda: Idx(TypeError), proto=True)
_v("Flt(1.5)", lambda: Flt(1.5))
_v("Flt(nan)", lambda: Flt(NAN))
_v("Flt(1)", lambda: Flt(1), proto=True)
_v("Flt(ValueError)", lambda: Flt(ValueError), proto=True)
_v("Flt(TypeError)", lambda: Flt(TypeError), proto=True)
_v("Cpx(1j)", lambda: Cpx(1j))
_v("Cpx(ValueError)", lambda: Cpx(ValueError), proto=True)
_v("TupSub(1,a)", lambda: TupSub((1, "a")))
_v("TupSub(1,2)", lambda: TupSub((1, 2)))
_v("TupSub(1.0,2.0)", lambda: TupSub((1.0, 2.0)))
_v("l[]", lambda: [])
_v("l[1]", lambda: [1])
_v("l[1,a]", lambda: [1, "a"])
_v("d{}", lambda: {})
_v("set{1}", lambda: {1})
_v("obj", lambda: object())
_v("BoolLike", lambda: BoolLike())
_v("lambda", lambda: (lambda: None))
_v("a0d", lambda: np.array(1.5))
_v("a1d_i2", lambda: np.array([1, 2]))
_v("a1d_f2", lambda: np.array([1.5, 2.5]))
_v("a1d_f3", lambda: np.array([1.0, 2.0, 3.0]))
# same type character as float64 / int64, but not the same dtype
_v("a1d_f2_swapped", lambda: np.array([1.5, 2.5]).astype(
    np.dtype("float64").newbyteorder()))
_v("a1d_i2_swapped", lambda: np.array([1, 2]).astype(
    np.dtype("int64").newbyteorder()))
_v("a1d_f1", lambda: np.array([1.0]))
_v("a1d_f4", lambda: np.array([1.0, 2.0, 3.0, 4.0]))
_v("a1d_0", lambda: np.array([], dtype=float))
_v("a2d_i22", lambda: np.array([[1, 2], [3, 4]]))
_v("a2d_f32", lambda: np.zeros((3, 2)))
_v("a2d_f23", lambda: np.zeros((2, 3)))
_v("a1d_f32", lambda: np.array([1.5, 2.5], dtype=np.float32))
_v("a1d_c2", lambda: np.array([1j, 2]))
_v("a1d_s2", lambda: np.array(["a", "b"]))
_v("l[1.5,2.5]", lambda: [1.5, 2.5])
_v("l[[1,2],[3,4]]", lambda: [[1, 2], [3, 4]])

LABELS = list(VALUES)


def value(label):
    return VALUES[label]()


# ------------------------------------------------------------------ models
REJECT = "reject"
UNSPEC = None     # acceptance left open by the documentation


def has(v, name):
    return hasattr(type(v), name)


def intlike(v):
    """documented: ints and objects supporting __index__ (not floats)."""
    if type(v) is int:
        return True, v
    if not has(v, "__index__"):
        return False, None
    try:
        return True, int(operator.index(v))
    except TypeError:
        return False, None
    except Exception as e:
        return ("raises", type(e)), None


def floatlike(v):
    if type(v) is float:
        return True, v
    if isinstance(v, (str, bytes)):
        return False, None
    if not (has(v, "__float__") or has(v, "__index__")):
        return False, None
    try:
        return True, float(v)
    except TypeError:
        return False, None
    except Exception as e:
        return ("raises", type(e)), None


def complexlike(v):
    if type(v) is complex:
        return True, v
    if isinstance(v, (str, bytes)):
        return False, None
    if not (has(v, "__complex__") or has(v, "__float__")
            or has(v, "__index__")):
        return False, None
    try:
        return True, complex(v)
    except TypeError:
        return False, None
    except Exception as e:
        return ("raises", type(e)), None


def cast(tp):
    def f(v):
        if tp is bytes and isinstance(v, int) and not isinstance(v, bool) \
                and abs(v) > 10 ** 6:
            return UNSPEC, None
        try:
            return True, tp(v)
        except (ValueError, TypeError):
            return False, None
        except Exception as e:
            return ("raises", type(e)), None
    return f


def same_or_nan(a, b):
    if type(a) is not type(b):
        return False
    if isinstance(a, float) and a != a:
        return b != b
    if isinstance(a, complex) and a != a:
        return b != b
    if isinstance(a, np.ndarray):
        return a.dtype == b.dtype and a.shape == b.shape and \
            np.array_equal(a, b, equal_nan=a.dtype.kind in "fc")
    if isinstance(a, tuple):
        return len(a) == len(b) and all(same_or_nan(x, y)
                                        for x, y in zip(a, b))
    if isinstance(a, CToFoo):       # a fresh adapter per adaptation
        return a.adaptee is b.adaptee
    try:
        return bool(a == b)
    except Exception:
        return a is b


class Config:
    def __init__(self, name, make, dom, model=None, good=None, kind=None,
                 owner_attrs=None, shadow=None, skip=(), routes=None):
        self.name, self.make, self.dom, self.model = name, make, dom, model
        self.good = good            # label of a valid value (pre-state)
        self.kind = kind or name.split("(")[0]
        self.owner_attrs = owner_attrs or {}
        self.shadow = shadow
        self.skip = set(skip)       # value labels not applied
        self.no_routes = set(routes or ())   # assignment routes not applied


CONFIGS = {}


def cfg(name, make, dom, model=None, good=None, **kw):
    CONFIGS[name] = Config(name, make, dom, model, good, **kw)


def exact(tp):
    return lambda s: type(s) is tp


def mk_model(like):
    def m(v):
        ok, conv = like(v)
        if ok is UNSPEC:
            return UNSPEC
        if isinstance(ok, tuple):
            return ok               # ("raises", exception class)
        return ("ok", conv) if ok else REJECT
    return m


# scalars ------------------------------------------------------------------
for nm, T in (("Int", Int), ("BaseInt", BaseInt)):
    cfg(nm, T, exact(int), mk_model(intlike), "i1")
for nm, T in (("Float", Float), ("BaseFloat", BaseFloat)):
    cfg(nm, T, exact(float), mk_model(floatlike), "f1.5")
for nm, T in (("Complex", Complex), ("BaseComplex", BaseComplex)):
    cfg(nm, T, exact(complex), mk_model(complexlike), "c1j")
for nm, T in (("Str", Str), ("BaseStr", BaseStr)):
    cfg(nm, T, lambda s: isinstance(s, str),
        lambda v: ("same", v) if isinstance(v, str) else REJECT, "sa")
for nm, T in (("Bytes", Bytes), ("BaseBytes", BaseBytes)):
    cfg(nm, T, lambda s: isinstance(s, bytes),
        lambda v: ("same", v) if isinstance(v, bytes) else REJECT, "ba")
for nm, T in (("Bool", Bool), ("BaseBool", BaseBool)):
    cfg(nm, T, exact(bool),
        lambda v: ("ok", bool(v)) if isinstance(v, (bool, np.bool_))
        else REJECT, "True")
BIGINTS = ("i10^400", "i-10^400", "i2^31", "i2^63", "i2^64", "i-2^63-1",
           "np.uint64max")
for nm, T, tp in (("CInt", CInt, int), ("BaseCInt", BaseCInt, int),
                  ("CFloat", CFloat, float), ("BaseCFloat", BaseCFloat, float),
                  ("CComplex", CComplex, complex),
                  ("BaseCComplex", BaseCComplex, complex),
                  ("CStr", CStr, str), ("BaseCStr", BaseCStr, str),
                  ("CBytes", CBytes, bytes),
                  ("CBool", CBool, bool), ("BaseCBool", BaseCBool, bool)):
    cfg(nm, T, exact(tp), mk_model(cast(tp)),
        {int: "i1", float: "f1.5", complex: "c1j", str: "sa", bytes: "ba",
         bool: "True"}[tp],
        skip=BIGINTS + ("i10", "np.int64", "i3", "i2", "IntSub(2)", "Idx(2)")
        if tp is bytes else ())


# ranges -------------------------------------------------------------------
def in_range(x, low, high, xl, xh):
    """independent bound test; NaN is outside every bounded range"""
    if x != x:
        return low is None and high is None
    if low is not None:
        if x < low or (xl and x == low):
            return False
    if high is not None:
        if x > high or (xh and x == high):
            return False
    return True


def range_cfgs():
    shapes = []
    for low in (None, 0, -1.5, 0.0):
        for high in (None, 2, 1.5, 2.0):
            if low is None and high is None:
                continue
            for xl in (False, True):
                for xh in (False, True):
                    if (low is None and xl) or (high is None and xh):
                        continue
                    shapes.append((low, high, xl, xh))
    for low, high, xl, xh in shapes:
        isfloat = isinstance(low, float) or isinstance(high, float)
        tp = float if isfloat else int
        like = floatlike if isfloat else intlike
        for nm, T in (("Range", Range), ("BaseRange", BaseRange)):
            name = "%s(%r,%r,xl=%d,xh=%d)" % (nm, low, high, xl, xh)
            lo = None if low is None else tp(low)
            hi = None if high is None else tp(high)

            def dom(s, lo=lo, hi=hi, xl=xl, xh=xh, tp=tp):
                return type(s) is tp and in_range(s, lo, hi, xl, xh)

            def model(v, lo=lo, hi=hi, xl=xl, xh=xh, like=like):
                ok, conv = like(v)
                if ok is UNSPEC:
                    return UNSPEC
                if isinstance(ok, tuple):
                    return ok
                if not ok:
                    return REJECT
                return ("ok", conv) if in_range(conv, lo, hi, xl, xh) \
                    else REJECT
            default = lo if lo is not None else hi
            make = (lambda T=T, low=low, high=high, xl=xl, xh=xh:
                    T(low, high, exclude_low=xl, exclude_high=xh))
            good = None
            for lbl in ("i1", "f1.0", "f0.5", "i0", "i2", "f-1.5", "f1.5",
                        "i-1", "f2.0"):
                m = model(value(lbl))
                if m not in (REJECT, UNSPEC) and type(m[1]) is tp:
                    good = lbl
                    break
            cfg(name, make, dom, model, good, kind=nm)


range_cfgs()


# dynamic ranges: bounds named by other attributes of the owner
def dyn_range_cfgs():
    for xl in (False, True):
        for xh in (False, True):
            for lo, hi in ((0, 2), (0.0, 2.0), (0, None), (None, 2.0)):
                name = "Range(dyn lo=%r,hi=%r,xl=%d,xh=%d)" % (lo, hi, xl, xh)
                if (lo is None and xl) or (hi is None and xh):
                    continue

                def dom(s, lo=lo, hi=hi, xl=xl, xh=xh):
                    if isinstance(s, bool) or \
                            not isinstance(s, (int, float)):
                        return False
                    return in_range(s, lo, hi, xl, xh)
                make = (lambda lo=lo, hi=hi, xl=xl, xh=xh: Range(
                    low="lo_" if lo is not None else None,
                    high="hi_" if hi is not None else None,
                    value=1, exclude_low=xl, exclude_high=xh))
                attrs = {}
                if lo is not None:
                    attrs["lo_"] = (Any, lo)
                if hi is not None:
                    attrs["hi_"] = (Any, hi)
                cfg(name, make, dom, None, "i1", kind="Range-dynamic",
                    owner_attrs=attrs, skip=("i10^400", "i-10^400"))


dyn_range_cfgs()


# strings ------------------------------------------------------------------
def string_cfgs():
    for minlen in (0, 1, 2):
        for maxlen in (0, 1, 2, None):
            for regex in ("", "a+", "^a?b$"):
                kw = {"minlen": minlen, "regex": regex}
                if maxlen is not None:
                    kw["maxlen"] = maxlen
                name = "String(min=%d,max=%s,re=%r)" % (minlen, maxlen, regex)
                if maxlen is not None and maxlen < minlen:
                    continue
                pat = re.compile(regex) if regex else None

                if maxlen is not None:
                    maxlen = max(minlen, maxlen)   # documented adjustment

                def dom(s, minlen=minlen, maxlen=maxlen, pat=pat):
                    if not isinstance(s, str):
                        return False
                    if len(s) < minlen:
                        return False
                    if maxlen is not None and len(s) > maxlen:
                        return False
                    if pat is not None and pat.match(s) is None:
                        return False
                    return True

                def model(v, dom=dom):
                    if isinstance(v, (str, int, float, complex)):
                        try:
                            s = str(v)
                        except Exception:
                            return UNSPEC
                        return ("ok", s) if dom(s) else REJECT
                    return REJECT
                good = None
                for lbl in ("sab", "sa", "sb", "s", "saab"):
                    if dom(value(lbl)):
                        good = lbl
                        break
                cfg(name, (lambda kw=kw: String("", **kw)), dom, model,
                    good, kind="String",
                    skip=("i10^400", "i-10^400"))
    cfg("Regex(a+b)", lambda: Regex("ab", regex="a+b"),
        lambda s: isinstance(s, str) and re.match("a+b", s) is not None,
        None, "sab", skip=("i10^400", "i-10^400"))


string_cfgs()


# enums ----------------------------------------------------------------------
# numpy arrays compare element-wise (== does not return a bool): membership
# tests on them are their own business, keep them out of Enum/Map
ARRAYS = tuple(k for k in VALUES if k[:3] in ("a0d", "a1d", "a2d"))

def enum_cfgs():
    for nm, T in (("Enum", Enum), ("BaseEnum", BaseEnum)):
        for vals in ((1, 2, 3), ["a", "b"], (None, 1), (1.0, True, "1"),
                     ("ab", "abc")):
            name = "%s%r" % (nm, tuple(vals))

            def dom(s, vals=vals):
                try:
                    return s in vals
                except Exception:
                    return False

            def model(v, vals=vals):
                try:
                    hash(v)
                    if isinstance(v, np.ndarray):
                        return UNSPEC
                    return ("same", v) if v in vals else REJECT
                except TypeError:
                    return REJECT
                except Exception:
                    return UNSPEC
            good = {(1, 2, 3): "i2", ("a", "b"): "sb", (None, 1): "i1",
                    (1.0, True, "1"): "s1", ("ab", "abc"): "sabc"}[
                tuple(vals)]
            cfg(name, (lambda T=T, vals=vals: T(*vals) if isinstance(
                vals, tuple) else T(vals)), dom, model, good, kind=nm,
                skip=ARRAYS)


enum_cfgs()


# tuples ---------------------------------------------------------------------
def tuple_model(members, lists=False):
    def model(v):
        if isinstance(v, list):
            if not lists:
                return REJECT
            v = tuple(v)        # BaseTuple converts lists to tuples
        if not isinstance(v, tuple) or len(v) != len(members):
            return REJECT
        out = []
        for m, x in zip(members, v):
            r = m(x)
            if r is UNSPEC:
                return UNSPEC
            if r == REJECT:
                return REJECT
            out.append(r[1])
        if not lists and all(a is b for a, b in zip(out, v)):
            return ("ok", v)    # nothing converted: the tuple as given
                                # (possibly of a tuple subclass)
        return ("ok", tuple(out))
    return model


def tuple_dom(doms):
    def dom(s):
        return isinstance(s, tuple) and len(s) == len(doms) and \
            all(d(x) for d, x in zip(doms, s))
    return dom


_tuple_model = tuple_model


def _first_lt_second(t):       # module level: picklable
    return t[0] < t[1]


def tuple_cfgs():
    int_m, str_m = CONFIGS["Int"].model, CONFIGS["Str"].model
    flt_m = CONFIGS["Float"].model
    int_d, str_d, flt_d = (CONFIGS[k].dom for k in ("Int", "Str", "Float"))
    none_or_int_m = (lambda v: ("same", None) if v is None else int_m(v))
    none_or_int_d = (lambda s: s is None or int_d(s))
    for nm, T in (("Tuple", Tuple), ("BaseTuple", BaseTuple)):
        tuple_model = (lambda ms, _tm=_tuple_model, _l=(T is BaseTuple):
                       _tm(ms, lists=_l))
        cfg("%s(Int,Str)" % nm, lambda T=T: T(Int, Str),
            tuple_dom([int_d, str_d]), tuple_model([int_m, str_m]), "t(1,a)",
            kind=nm)
        cfg("%s(Float,Float)" % nm, lambda T=T: T(Float, Float),
            tuple_dom([flt_d, flt_d]), tuple_model([flt_m, flt_m]),
            "t(1.0,2.0)", kind=nm)
        inner_d = tuple_dom([str_d, int_d])
        inner_m = tuple_model([str_m, int_m])
        cfg("%s(Int,Tuple(Str,Int))" % nm,
            lambda T=T: T(Int, Tuple(Str, Int)),
            tuple_dom([int_d, inner_d]), tuple_model([int_m, inner_m]),
            "t(1,(a,2))", kind=nm)
        cfg("%s(Union(Int,None),Str)" % nm,
            lambda T=T: T(Union(Int, None), Str),
            tuple_dom([none_or_int_d, str_d]),
            tuple_model([none_or_int_m, str_m]), "t(None,a)", kind=nm)
    cfg("ValidatedTuple(Int,Int,a<b)",
        lambda: ValidatedTuple(Int, Int, fvalidate=_first_lt_second),
        lambda s: tuple_dom([int_d, int_d])(s) and s[0] < s[1],
        None, "t(1,2)", kind="ValidatedTuple")


tuple_cfgs()


# instances / types / callables ------------------------------------------------
def inst_cfgs():
    for nm, T in (("Instance", Instance), ("BaseInstance", BaseInstance)):
        for allow_none in (True, False):
            name = "%s(A,allow_none=%s)" % (nm, allow_none)

            def dom(s, an=allow_none):
                return isinstance(s, A) or (an and s is None)

            def model(v, an=allow_none):
                if isinstance(v, A) or (an and v is None):
                    return ("same", v)
                return REJECT
            cfg(name, lambda T=T, an=allow_none: T(A, allow_none=an), dom,
                model, "A0", kind=nm)
    # clones of a trait type with allow_none changed
    cfg("Instance(A)(allow_none=False)",
        lambda: Instance(A)(allow_none=False),
        lambda s: isinstance(s, A),
        lambda v: ("same", v) if isinstance(v, A) else REJECT, "A0",
        kind="Instance-clone")
    cfg("Instance(A,allow_none=False)(allow_none=True)",
        lambda: Instance(A, allow_none=False)(allow_none=True),
        lambda s: s is None or isinstance(s, A),
        lambda v: ("same", v) if (v is None or isinstance(v, A)) else REJECT,
        "A0", kind="Instance-clone")
    cfg("Supports(IFoo)(allow_none=False)",
        lambda: Supports(IFoo)(allow_none=False),
        lambda s: isinstance(s, (FooImpl, CToFoo)), None, "FOO0",
        kind="Supports-clone")
    # class given by (qualified) name: resolved lazily, on first use
    cfg("Instance('props.lattice.A')",
        lambda: Instance("props.lattice.A", allow_none=False),
        lambda s: isinstance(s, A),
        lambda v: ("same", v) if isinstance(v, A) else REJECT, "A0",
        kind="Instance-byname")
    for adapt in ("no", "yes", "default"):
        for allow_none in (True, False):
            name = "Instance(IFoo,adapt=%s,allow_none=%s)" % (adapt,
                                                              allow_none)

            def dom(s, an=allow_none, adapt=adapt):
                if s is None:
                    # adapt="default": a failed adaptation yields the
                    # default value (None here)
                    return an or adapt == "default"
                return isinstance(s, (FooImpl, CToFoo))
            cfg(name, lambda ad=adapt, an=allow_none: Instance(
                IFoo, adapt=ad, allow_none=an), dom, None, "FOO0",
                kind="Instance-adapt")
    for allow_none in (True, False):
        cfg("Supports(IFoo,allow_none=%s)" % allow_none,
            lambda an=allow_none: Supports(IFoo, allow_none=an),
            lambda s, an=allow_none: (an and s is None) or
            isinstance(s, (FooImpl, CToFoo)),   # stores the adapted value
            None, "FOO0", kind="Supports")
        cfg("AdaptsTo(IFoo,allow_none=%s)" % allow_none,
            lambda an=allow_none: AdaptsTo(IFoo, allow_none=an),
            lambda s, an=allow_none: (an and s is None) or
            isinstance(s, (FooImpl, C, CToFoo)),  # stores the original value
            # documented: the value itself is stored, the adapter goes to
            # the shadow attribute
            lambda v, an=allow_none: ("same", v) if (
                (an and v is None) or isinstance(v, (FooImpl, C)))
            else UNSPEC, "FOO0", kind="AdaptsTo",
            shadow=lambda s: ("isinstance", (FooImpl, CToFoo, type(None))))
        cfg("Type(A,allow_none=%s)" % allow_none,
            lambda an=allow_none: Type(klass=A, allow_none=an),
            lambda s, an=allow_none: (an and s is None) or
            (isinstance(s, type) and issubclass(s, A)),
            lambda v, an=allow_none: ("same", v) if (
                (an and v is None) or (isinstance(v, type)
                                       and issubclass(v, A))) else REJECT,
            "clsB", kind="Type")
        for nm, T in (("Callable", Callable), ("BaseCallable", BaseCallable)):
            if T is BaseCallable and not allow_none:
                continue        # BaseCallable has no allow_none option
            cfg("%s(allow_none=%s)" % (nm, allow_none),
                lambda T=T, an=allow_none: T(allow_none=an),
                lambda s, an=allow_none: callable(s) or (an and s is None),
                lambda v, an=allow_none: ("same", v) if (
                    callable(v) or (an and v is None)) else REJECT,
                "fn", kind=nm)
        cfg("This(allow_none=%s)" % allow_none,
            lambda an=allow_none: This(allow_none=an), None, None, None,
            kind="This")
    cfg("Module", Module, lambda s: isinstance(s, types.ModuleType),
        lambda v: ("same", v) if isinstance(v, types.ModuleType) else REJECT,
        "mod")


inst_cfgs()


# prefix / map ----------------------------------------------------------------
PL = ["abc", "abd", "xyz", "ab"]


def prefix_model(keys):
    def model(v):
        if not isinstance(v, str):
            return REJECT
        if v in keys:
            return ("ok", v)
        m = [k for k in keys if k.startswith(v)]
        return ("ok", m[0]) if len(m) == 1 else REJECT
    return model


cfg("PrefixList(abc,abd,xyz,ab)", lambda: PrefixList(PL),
    lambda s: s in PL, prefix_model(PL), "sxyz", kind="PrefixList")
PM = {"abc": 1, "abd": 2, "xyz": 3, "ab": 4}
cfg("PrefixMap", lambda: PrefixMap(dict(PM)), lambda s: s in PM,
    prefix_model(list(PM)), "sxyz", kind="PrefixMap",
    shadow=lambda s: PM[s])
MP = {"yes": 1, "one": 1.0, 1: "int", None: "none"}


def map_model(v):
    try:
        return ("same", v) if v in MP else REJECT
    except TypeError:
        return REJECT
    except Exception:
        return UNSPEC


cfg("Map", lambda: Map(dict(MP)), lambda s: s in MP, map_model, "syes",
    kind="Map", shadow=lambda s: MP[s], skip=ARRAYS)


class ScaledMap(Map):
    """a user subclass that overrides the documented hook for the shadow
    value"""

    def mapped_value(self, value):
        return self.map[value] * 1000


def _scaled_model(v):
    try:
        return ("same", v) if v in {"yes": 1, "no": 0} else REJECT
    except TypeError:
        return REJECT
    except Exception:
        return UNSPEC


cfg("ScaledMap", lambda: ScaledMap({"yes": 1, "no": 0}),
    lambda s: s in ("yes", "no"), _scaled_model, "syes", kind="MapSub",
    shadow=lambda s: {"yes": 1, "no": 0}[s] * 1000, skip=ARRAYS)


# settable properties that validate (and convert) through a trait
def _vp_get(self):
    return self.__dict__.get("_vp", 0)


def _vp_set(self, value):
    self.__dict__["_vp"] = value


def _validated_property_cfgs():
    from traits.api import Property
    for member in ("Float", "CInt", "CStr", "Range(0.0<=x<=1.0)" if
                   "Range(0.0<=x<=1.0)" in CONFIGS else "Int"):
        c = CONFIGS[member]
        cfg("Property(%s)" % member,
            lambda c=c: Property(_vp_get, _vp_set, trait=c.make()),
            c.dom, c.model, c.good, kind="Property-validated",
            skip=c.skip,
            # through PrototypedFrom the setter runs on the deferring object
            # while reads go to the prototype's getter: what is read back is
            # the prototype's own state, which this route never assigned
            routes=("proto",))


_validated_property_cfgs()


def safe(pred, s):
    try:
        return bool(pred(s))
    except Exception:
        return False


# legacy mapped compounds: a mapping alternative next to a container type;
# values the mapping cannot even hash are the container alternative's
LMAP = {"yes": 1, "no": 0}


def _legacy_map_cfg(name, other_type, other_trait):
    from traits.api import Trait

    def dom(s):
        if isinstance(s, other_type):
            return True
        try:
            return s in LMAP
        except TypeError:
            return False

    def model(v):
        if type(v) is other_type:
            return UNSPEC           # accepted, stored in its trait wrapper
        try:
            return ("same", v) if v in LMAP else REJECT
        except TypeError:
            return REJECT
        except Exception:
            return UNSPEC

    def shadow(s):
        if isinstance(s, other_type):
            return s
        return LMAP[s]
    cfg(name, lambda: Trait("yes", dict(LMAP), other_trait), dom, model,
        "syes", kind="LegacyMap", shadow=shadow, skip=ARRAYS)


def _legacy_cfgs():
    from traits.api import Dict as _Dict, List as _List
    _legacy_map_cfg("Trait('yes',{map},List)", list, _List)
    _legacy_map_cfg("Trait('yes',{map},Dict)", dict, _Dict)


_legacy_cfgs()


# legacy handler classes behind Trait(...): each carries its own fast-validation
# descriptor and its own Python validate
def _legacy_handler_cfgs():
    from traits.api import Trait, TraitCastType

    def inst(*tps):
        return lambda s: isinstance(s, tps)
    cfg("Trait(0.0,float)", lambda: Trait(0.0, float), inst(float), None,
        "f1.5", kind="LegacyCoerce")
    cfg("Trait(0,int)", lambda: Trait(0, int), inst(int), None, "i1",
        kind="LegacyCoerce")
    cfg("Trait(0j,complex)", lambda: Trait(0j, complex), inst(complex), None,
        "c1j", kind="LegacyCoerce")
    cfg("Trait('',str)", lambda: Trait("", str), inst(str), None, "sa",
        kind="LegacyCoerce")
    cfg("Trait(0.0)", lambda: Trait(0.0), inst(float), None, "f1.5",
        kind="LegacyCast")
    cfg("Trait(0,TraitCastType(int))", lambda: Trait(0, TraitCastType(int)),
        inst(int), None, "i1", kind="LegacyCast")
    cfg("Trait(0.0,TraitCastType(float))",
        lambda: Trait(0.0, TraitCastType(float)), inst(float), None, "f1.5",
        kind="LegacyCast")
    cfg("Trait(None,A)", lambda: Trait(None, A),
        lambda s: s is None or isinstance(s, A), None, "A0",
        kind="LegacyInstance")
    cfg("Trait(1,2,3)", lambda: Trait(1, 2, 3),
        lambda s: safe(lambda x: x in (1, 2, 3), s), None, "i1",
        kind="LegacyEnum", skip=ARRAYS)
    cfg("Trait(0.0,float,str)", lambda: Trait(0.0, float, str),
        inst(float, str), None, "f1.5", kind="LegacyCompound")
    cfg("Trait(0,int,complex)", lambda: Trait(0, int, complex),
        inst(int, complex), None, "i1", kind="LegacyCompound")
    from traits.api import TraitInstance
    cfg("Trait(None,TraitInstance('A'),int)",
        lambda: Trait(None, TraitInstance("A", module="props.lattice"), int),
        lambda s: s is None or isinstance(s, (A, int)), None, "A0",
        kind="LegacyCompound")
    cfg("Trait(None,TraitInstance('A'))",
        lambda: Trait(None, TraitInstance("A", module="props.lattice")),
        lambda s: s is None or isinstance(s, A), None, "A0",
        kind="LegacyInstance")
    cfg("Trait(None,A,float)", lambda: Trait(None, A, float),
        lambda s: s is None or isinstance(s, (A, float)), None, "A0",
        kind="LegacyCompound")


_legacy_handler_cfgs()


# compounds ---------------------------------------------------------------------
MEMBERS = [
    "Int", "Float", "Complex", "Str", "Bytes", "Bool", "CInt", "CFloat",
    "CStr", "Range(0,2,xl=1,xh=0)", "Range(0.0,2.0,xl=0,xh=1)",
    "Range(None,2.0,xl=0,xh=1)", "Range(-1.5,None,xl=1,xh=0)",
    "Enum(1, 2, 3)", "Enum('a', 'b')", "Map", "Tuple(Int,Str)",
    "Instance(A,allow_none=True)", "Instance(A,allow_none=False)",
    "Instance('props.lattice.A')",
    "Instance(IFoo,adapt=yes,allow_none=False)",
    "Supports(IFoo,allow_none=False)", "AdaptsTo(IFoo,allow_none=False)",
    "Type(A,allow_none=False)", "Callable(allow_none=False)",
    "Callable(allow_none=True)", "Module", "String(min=1,max=2,re='a+')",
    "Date(allow_none=False,allow_datetime=False)", "List(Int)",
]
COMPOUND_MEMBERS = {}     # compound config name -> member config names




def union_cfgs():
    from traits.api import List
    cfg("List(Int)", lambda: List(Int),
        lambda s: isinstance(s, list) and all(type(e) is int for e in s),
        None, "l[1]", kind="List")
    pairs = [(a, b) for a in MEMBERS for b in MEMBERS if a != b]
    for a, b in pairs:
        ca, cb = CONFIGS[a], CONFIGS[b]
        for nm, T in (("Either", Either), ("Union", Union)):
            name = "%s(%s|%s)" % (nm, a, b)

            def dom(s, ca=ca, cb=cb):
                return safe(ca.dom, s) or safe(cb.dom, s)
            good = ca.good
            cfg(name, lambda T=T, ca=ca, cb=cb: T(ca.make(), cb.make()),
                dom, None, good, kind=nm + "2",
                skip=ca.skip | cb.skip)
            COMPOUND_MEMBERS[name] = [a, b]
    triples = [("Int", "Str", "Instance(A,allow_none=False)"),
               ("Float", "Tuple(Int,Str)", "Enum('a', 'b')"),
               ("Supports(IFoo,allow_none=False)", "List(Int)",
                "Instance(A,allow_none=True)"),
               ("String(min=1,max=2,re='a+')", "Int",
                "Range(0.0,2.0,xl=0,xh=1)"),
               ("Callable(allow_none=False)", "Map", "CFloat")]
    for a, b, c in triples:
        ca, cb, cc = CONFIGS[a], CONFIGS[b], CONFIGS[c]
        cfg("Either(%s|%s|%s)" % (a, b, c),
            lambda ca=ca, cb=cb, cc=cc: Either(ca.make(), cb.make(),
                                               cc.make()),
            lambda s, ca=ca, cb=cb, cc=cc: safe(ca.dom, s) or safe(cb.dom, s)
            or safe(cc.dom, s), None, ca.good, kind="Either3")
        COMPOUND_MEMBERS["Either(%s|%s|%s)" % (a, b, c)] = [a, b, c]
    # nested compound with slow members on both levels
    from traits.api import Dict
    cfg("Either(Either(Int,List(Int)),Str,Dict(Str,Int))",
        lambda: Either(Either(Int, List(Int)), Str, Dict(Str, Int)),
        lambda s: type(s) is int or isinstance(s, (str, list, dict)),
        None, "i1", kind="Either-nested")
    from traits.api import List as _List
    cfg("Either(Either(List(Int),Int),Str)",
        lambda: Either(Either(_List(Int), Int), Str),
        lambda s: type(s) is int or isinstance(s, (str, list)),
        None, "i1", kind="Either-nested")
    cfg("Either(Str,Either(Int,List(Int)))",
        lambda: Either(Str, Either(Int, _List(Int))),
        lambda s: type(s) is int or isinstance(s, (str, list)),
        None, "sa", kind="Either-nested")
    # the inner compound mixes a compiled and a Python-only member and is
    # declared before an outer member that accepts the same values otherwise
    from traits.api import BaseFloat as _BF, BaseInt as _BI, Float as _F
    cfg("Either(Either(Str,BaseInt),Float)",
        lambda: Either(Either(Str, _BI), _F),
        lambda s: isinstance(s, (str, int, float)), None, "i1",
        kind="Either-nested")
    cfg("Either(Either(BaseInt,Str),Float)",
        lambda: Either(Either(_BI, Str), _F),
        lambda s: isinstance(s, (str, int, float)), None, "i1",
        kind="Either-nested")
    cfg("Either(Either(Str,BaseFloat),Int)",
        lambda: Either(Either(Str, _BF), Int),
        lambda s: isinstance(s, (str, int, float)), None, "i1",
        kind="Either-nested")
    cfg("Union(None,Int)", lambda: Union(None, Int),
        lambda s: s is None or type(s) is int,
        lambda v: ("same", None) if v is None else CONFIGS["Int"].model(v),
        "i1", kind="Union2")


# dates -----------------------------------------------------------------------
def date_cfgs():
    for allow_none in (True, False):
        for allow_dt in (True, False):
            cfg("Date(allow_none=%s,allow_datetime=%s)" % (allow_none,
                                                           allow_dt),
                lambda an=allow_none, ad=allow_dt: Date(
                    allow_none=an, allow_datetime=ad),
                lambda s, an=allow_none, ad=allow_dt: (an and s is None) or (
                    isinstance(s, datetime.date) and
                    (ad or not isinstance(s, datetime.datetime))),
                lambda v, an=allow_none, ad=allow_dt: ("same", v) if (
                    (an and v is None) or (isinstance(v, datetime.date) and (
                        ad or not isinstance(v, datetime.datetime))))
                else REJECT, "date", kind="Date")
        cfg("Datetime(allow_none=%s)" % allow_none,
            lambda an=allow_none: Datetime(allow_none=an),
            lambda s, an=allow_none: (an and s is None) or
            isinstance(s, datetime.datetime),
            lambda v, an=allow_none: ("same", v) if (
                (an and v is None) or isinstance(v, datetime.datetime))
            else REJECT, "datetime", kind="Datetime")
        cfg("Time(allow_none=%s)" % allow_none,
            lambda an=allow_none: Time(allow_none=an),
            lambda s, an=allow_none: (an and s is None) or
            isinstance(s, datetime.time),
            lambda v, an=allow_none: ("same", v) if (
                (an and v is None) or isinstance(v, datetime.time))
            else REJECT, "time", kind="Time")


date_cfgs()
union_cfgs()


# arrays ------------------------------------------------------------------------
def shape_ok(shape, spec):
    if spec is None:
        return True
    if len(shape) != len(spec):
        return False
    for n, s in zip(shape, spec):
        if s is None:
            continue
        if isinstance(s, tuple):
            lo, hi = s
            if n < lo or (hi is not None and n > hi):
                return False
        elif n != s:
            return False
    return True


def array_cfgs():
    for nm, T in (("Array", Array), ("CArray", CArray),
                  ("ArrayOrNone", ArrayOrNone)):
        for dtype in (None, np.int64, np.float64, np.float32):
            for shape in (None, (2,), (None, 2), ((1, 3),), ((2, None),)):
                for casting in ("unsafe", "same_kind", "safe"):
                    if casting != "unsafe" and (dtype is None):
                        continue
                    name = "%s(dtype=%s,shape=%s,casting=%s)" % (
                        nm, getattr(dtype, "__name__", None), shape, casting)

                    def dom(s, dtype=dtype, shape=shape, nm=nm):
                        if s is None:
                            return nm == "ArrayOrNone"
                        if not isinstance(s, np.ndarray):
                            return False
                        if dtype is not None and s.dtype != np.dtype(dtype):
                            return False
                        return shape_ok(s.shape, shape)
                    kw = {"dtype": dtype, "shape": shape}
                    if casting != "unsafe":
                        kw["casting"] = casting
                    cfg(name, lambda T=T, kw=kw: T(**kw), dom, None, None,
                        kind=nm)


array_cfgs()

# files -------------------------------------------------------------------------
cfg("File", File, lambda s: isinstance(s, str), None, "sa", kind="File")
cfg("File(exists=True)", lambda: File(exists=True),
    lambda s: isinstance(s, str) and os.path.isfile(s), None, "sfile",
    kind="File")
cfg("Directory(exists=True)", lambda: Directory(exists=True),
    lambda s: isinstance(s, str) and os.path.isdir(s), None, "sdir",
    kind="Directory")

NAMES = list(CONFIGS)

TRIPLE_MEMBERS = [
    "Int", "Float", "Str", "Bool", "CInt", "Range(0.0,2.0,xl=0,xh=1)",
    "Enum(1, 2, 3)", "Tuple(Int,Str)", "Instance(A,allow_none=False)",
    "Supports(IFoo,allow_none=False)", "Callable(allow_none=False)",
    "String(min=1,max=2,re='a+')", "List(Int)",
]
_TRIPLES_ADDED = False


def add_triples():
    """thorough tier: every ordered triple of 13 members as Either"""
    global _TRIPLES_ADDED
    if _TRIPLES_ADDED:
        return
    _TRIPLES_ADDED = True
    import itertools
    for a, b, c in itertools.permutations(TRIPLE_MEMBERS, 3):
        ca, cb, cc = CONFIGS[a], CONFIGS[b], CONFIGS[c]
        name = "Either(%s|%s|%s)" % (a, b, c)
        if name in CONFIGS:
            continue
        cfg(name, lambda ca=ca, cb=cb, cc=cc: Either(ca.make(), cb.make(),
                                                     cc.make()),
            lambda s, ca=ca, cb=cb, cc=cc: safe(ca.dom, s) or safe(cb.dom, s)
            or safe(cc.dom, s), None, ca.good, kind="Either3",
            skip=ca.skip | cb.skip | cc.skip)
        COMPOUND_MEMBERS[name] = [a, b, c]
        NAMES.append(name)
