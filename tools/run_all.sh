#!/bin/sh
# run_all.sh <tier> [ids...] : run checks sequentially, print one summary line each
tier=${1:-quick}; shift
ids=${@:-C01 C02 C03 C04 C05 C06 C07 C08 C09 C10 C11 C12 C13 C14 C15 C16 C17 C18 C19 C20}
cd "$(dirname "$0")/.."
for p in $ids; do
  start=$(date +%s)
  out=$(./check $p --tier $tier 2>&1); rc=$?
  end=$(date +%s)
  echo "== $p tier=$tier rc=$rc wall=$((end-start))s $(echo "$out" | grep -c '^VIOLATION') violations, $(echo "$out" | grep -c '^KNOWN-FINDING') known"
  echo "$out" | grep -v '^KNOWN-FINDING' | head -${SHOW:-6} | cut -c1-250
done
