#!/usr/bin/env python3
"""Regenerate the measured-cost table of DESIGN.md section 6 from the
committed quick evidence files and the summary lines of the last complete
thorough run (docs/thorough_summary.txt)."""
import json
import os
import re

V = os.path.dirname(os.path.dirname(os.path.abspath(__file__)))
rows = []
th = {}
p = os.path.join(V, "docs", "thorough_summary.txt")
if os.path.exists(p):
    for line in open(p):
        m = re.match(r"(C\d\d) tier=thorough .*?evaluations=(\d+) "
                     r"transitions=(\d+) states=(\d+).*?wall=([\d.]+)s", line)
        if m:
            th[m.group(1)] = m.groups()[1:]
for i in range(1, 21):
    pid = "C%02d" % i
    d = json.load(open(os.path.join(V, "evidence", pid + ".json")))
    c = d["coverage"]
    t = th.get(pid)
    rows.append("| %s | %s | %d | %s | %s | %s | %d | %.0f s | %s |" % (
        pid, d["level"].replace("_", " "), c["shards"],
        format(c["evaluations"], ","), format(c["transitions"], ","),
        format(c["states"], ","), c["distinct_outcome_classes"], d["wall_s"],
        ("%s exec / %s tr / %.0f s" % (format(int(t[0]), ","),
                                       format(int(t[1]), ","), float(t[3])))
        if t else "-"))
table = ("| id | level | shards | executions | checked transitions | distinct "
         "states | outcome classes | quick wall | thorough (executions / "
         "transitions / wall) |\n|---|---|---|---|---|---|---|---|---|\n"
         + "\n".join(rows))
path = os.path.join(V, "DESIGN.md")
s = open(path).read()
a, b = "<!-- COST-TABLE -->", "<!-- /COST-TABLE -->"
s = s[:s.index(a) + len(a)] + "\n" + table + "\n" + s[s.index(b):]
open(path, "w").write(s)
print(table)
