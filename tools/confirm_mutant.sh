#!/bin/sh
# confirm_mutant.sh <worktree> <mutant-dir>
# In a scratch worktree: apply patch, run demo (must fail) and the full suite (must pass),
# revert, run demo again (must pass). Prints a one-line verdict.
WT=$1; M=$2
cd "$WT" || exit 2
git checkout -q -- . ; 
touchc=0; grep -q 'ctraits\.c' "$M/patch.diff" && touchc=1
git apply "$M/patch.diff" || { echo "CONFIRM $M: patch does not apply"; exit 2; }
[ $touchc = 1 ] && /venv/bin/python setup.py -q build_ext --inplace >/dev/null 2>&1
/venv/bin/python "$M/demo.py" >/tmp/demo_with.$$ 2>&1; with=$?
suite=$(/venv/bin/python -m pytest -q -p no:cacheprovider --timeout=900 traits 2>&1 | tail -1)
git checkout -q -- .
[ $touchc = 1 ] && /venv/bin/python setup.py -q build_ext --inplace >/dev/null 2>&1
/venv/bin/python "$M/demo.py" >/tmp/demo_without.$$ 2>&1; without=$?
echo "CONFIRM $M: demo_with_rc=$with demo_without_rc=$without suite='$suite'"
rm -f /tmp/demo_with.$$ /tmp/demo_without.$$
