#!/usr/bin/env python3
"""seed.py <prop> <mutant-src-dir> <seed-name> [--checks C06,C08] [--patch FILE]

Confirm a seeded change in a scratch worktree of /repo's HEAD (suite passes,
demo fails with / passes without), run the given checks against that worktree
(VERIF_REPO), and store everything under /verif/seeded/<seed-name>/.
"""
import argparse
import json
import os
import shutil
import subprocess
import sys
import tempfile

VERIF = os.path.dirname(os.path.dirname(os.path.abspath(__file__)))
PY = "/venv/bin/python"


def sh(cmd, cwd=None, env=None, timeout=3600):
    p = subprocess.run(cmd, shell=True, cwd=cwd, env=env, capture_output=True,
                       text=True, timeout=timeout)
    return p.returncode, (p.stdout + p.stderr)


def main():
    ap = argparse.ArgumentParser()
    ap.add_argument("prop")
    ap.add_argument("src")
    ap.add_argument("name")
    ap.add_argument("--checks")
    ap.add_argument("--patch")
    ap.add_argument("--tier", default="quick")
    ap.add_argument("--no-suite", action="store_true")
    ap.add_argument("--reuse-suite", action="store_true",
                    help="keep the recorded suite result when the stored "
                         "patch is byte-identical (re-runs demo and checks)")
    a = ap.parse_args()
    checks = (a.checks or a.prop).split(",")
    patch = os.path.abspath(a.patch or os.path.join(a.src, "patch.diff"))
    demo = os.path.abspath(os.path.join(a.src, "demo.py"))
    wt = tempfile.mkdtemp(prefix="seedwt-", dir="/var/tmp")
    os.rmdir(wt)
    meta = {"property": a.prop, "origin": "independent sub-agent given only "
            "the property text", "patch_applied_to": None}
    try:
        rc, out = sh("git -C /repo worktree add -q --detach %s HEAD" % wt)
        assert rc == 0, out
        meta["patch_applied_to"] = sh("git -C /repo rev-parse --short HEAD")[1].strip()
        touches_c = "ctraits.c" in open(patch).read()
        build = ("cp $(VERIF_REPO=%s PYTHONPATH=%s %s -m mc.build rel) %s/traits/ && "
                 "cp -n /repo/traits/version.py %s/traits/ || true"
                 % (wt, VERIF, PY, wt, wt))
        rc, out = sh(build, cwd=wt)
        assert rc == 0, out[-2000:]
        rc, out = sh("git apply %s" % patch, cwd=wt)
        if rc != 0:
            print("SEED %s: patch does not apply: %s" % (a.name, out[-300:]))
            return 2
        if touches_c:
            rc, out = sh(build, cwd=wt)
            if rc != 0:
                print("SEED %s: does not compile" % a.name)
                return 2
        rc_with, out_with = sh("%s %s" % (PY, demo), cwd=wt)
        suite = "skipped"
        old_meta = os.path.join(VERIF, "seeded", a.name, "meta.json")
        old_patch = os.path.join(VERIF, "seeded", a.name, "patch.diff")
        if a.reuse_suite and os.path.exists(old_meta) and \
                open(old_patch).read() == open(patch).read():
            suite = json.load(open(old_meta))["confirmed"][
                "suite_with_change"]
        elif not a.no_suite:
            rc, out = sh("%s -m pytest -q -p no:cacheprovider --timeout=900 "
                         "traits 2>&1 | tail -1" % PY, cwd=wt)
            suite = out.strip()
        results = []
        evdir = tempfile.mkdtemp(prefix="seedev-", dir="/var/tmp")
        env = dict(os.environ, VERIF_REPO=wt, VERIF_EVIDENCE_DIR=evdir,
                   VERIF_REPLAY_DIR=evdir)
        for c in checks:
            rc, out = sh("./check %s --tier %s" % (c, a.tier), cwd=VERIF,
                         env=env)
            lines = out.splitlines()
            v = [i for i, ln in enumerate(lines) if ln.startswith("VIOLATION")]
            first = ""
            if v:
                first = " | ".join(x.replace(evdir, "<replays>")
                                   for x in lines[v[0]:v[0] + 2])
            results.append({"cmd": "./check %s --tier %s" % (c, a.tier),
                            "rc": rc, "violation_lines": len(v),
                            "first": first[:400],
                            "summary": lines[0][:300] if lines else ""})
        shutil.rmtree(evdir, ignore_errors=True)
        sh("git checkout -q -- .", cwd=wt)
        if touches_c:
            sh(build, cwd=wt)
        rc_without, out_without = sh("%s %s" % (PY, demo), cwd=wt)
    finally:
        sh("git -C /repo worktree remove --force %s" % wt)
        shutil.rmtree(wt, ignore_errors=True)
    ok = rc_with != 0 and rc_without == 0 and "1618 passed" in suite
    detected = [r for r in results if r["rc"] == 1 and r["violation_lines"]]
    meta.update({
        "needs_to_manifest": open(os.path.join(a.src, "notes.md")).read()
        if os.path.exists(os.path.join(a.src, "notes.md")) else
        (json.load(open(old_meta)).get("needs_to_manifest", "")
         if os.path.exists(old_meta) else ""),
        "confirmed": {
            "where": "scratch git worktree of /repo HEAD under /var/tmp "
                     "(removed afterwards)",
            "suite_with_change": suite,
            "demo_rc_with_change": rc_with,
            "demo_rc_without_change": rc_without,
            "demo_output_with_change": out_with[-600:],
            "valid": ok,
        },
        "checks_run": results,
        "detected": bool(detected),
    })
    print("SEED %s: valid=%s suite=%r demo_with=%s demo_without=%s detected=%s"
          % (a.name, ok, suite[:40], rc_with, rc_without,
             [(r["cmd"].split()[1], r["rc"], r["violation_lines"])
              for r in results]))
    for r in results:
        if r["first"]:
            print("   ", r["first"][:300])
    if ok:
        d = os.path.join(VERIF, "seeded", a.name)
        os.makedirs(d, exist_ok=True)
        for src_f, name_f in ((patch, "patch.diff"), (demo, "demo.py")):
            dst_f = os.path.join(d, name_f)
            if os.path.abspath(src_f) != os.path.abspath(dst_f):
                shutil.copy(src_f, dst_f)
        with open(os.path.join(d, "meta.json"), "w") as f:
            json.dump(meta, f, indent=1)
            f.write("\n")
    return 0


if __name__ == "__main__":
    sys.exit(main())
