#!/bin/sh
# reseed_all.sh [jobs] : re-run demo + checks for every kept seeded change at /repo's current HEAD
cd "$(dirname "$0")/.."
jobs=${1:-3}
ls seeded | xargs -P $jobs -I{} sh -c 'p=$(python3 -c "import json;print(json.load(open(\"seeded/{}/meta.json\"))[\"property\"])"); python3 tools/seed.py $p seeded/{} {} --checks $p --reuse-suite 2>&1 | head -1 | cut -c1-200'
