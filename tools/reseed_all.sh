#!/bin/sh
# reseed_all.sh [jobs] [names...] : re-run demo + checks for kept seeded changes at /repo's current HEAD
cd "$(dirname "$0")/.."
jobs=${1:-3}; shift
names=${@:-$(ls seeded)}
echo $names | tr ' ' '\n' | xargs -P $jobs -I{} sh -c 'set -- $(python3 -c "
import json
m=json.load(open(\"seeded/{}/meta.json\"))
print(m[\"property\"], \",\".join(r[\"cmd\"].split()[1] for r in m[\"checks_run\"]))"); python3 tools/seed.py $1 seeded/{} {} --checks $2 --reuse-suite 2>&1 | head -1 | cut -c1-200'
