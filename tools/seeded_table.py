#!/usr/bin/env python3
"""Regenerate the 'which check catches which seeded change' table in DESIGN.md
from seeded/*/meta.json (between the SEEDED-TABLE markers)."""
import glob
import json
import os
import re

VERIF = os.path.dirname(os.path.dirname(os.path.abspath(__file__)))
rows = []
for d in sorted(glob.glob(os.path.join(VERIF, "seeded", "*"))):
    mp = os.path.join(d, "meta.json")
    if not os.path.exists(mp):
        continue
    m = json.load(open(mp))
    name = os.path.basename(d)
    files = sorted(set(re.findall(r"^\+\+\+ b/(\S+)", open(
        os.path.join(d, "patch.diff")).read(), re.M)))
    needs = " ".join(m.get("needs_to_manifest", "").split())
    needs = re.sub(r"^#+\s*\S+.*?(?=\b[A-Z])", "", needs)[:170]
    det = []
    for r in m.get("checks_run", []):
        c = r["cmd"].split()[1]
        if r["rc"] == 1 and r["violation_lines"]:
            sig = re.search(r"#\s*(\S+)", r.get("first", ""))
            det.append("**%s** (`%s`)" % (c, sig.group(1)[:60] if sig else ""))
        else:
            det.append("%s: no" % c)
    rows.append("| %s | %s | %s | %s | %s |" % (
        name, m["property"], ", ".join(os.path.basename(f) for f in files),
        needs.replace("|", "/"), "; ".join(det)))
table = ["| seeded change | property | file(s) | what it needs to manifest | quick checks run against it |",
         "|---|---|---|---|---|"] + rows
p = os.path.join(VERIF, "DESIGN.md")
s = open(p).read()
a, b = "<!-- SEEDED-TABLE-BEGIN -->", "<!-- SEEDED-TABLE-END -->"
if a in s:
    s = s[:s.index(a) + len(a)] + "\n" + "\n".join(table) + "\n" + s[s.index(b):]
    open(p, "w").write(s)
caught = sum(1 for r in rows if "**" in r)
print("%d seeded changes, %d caught by at least one check" % (len(rows), caught))
