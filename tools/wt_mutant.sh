#!/bin/sh
# wt_mutant.sh <patch.diff> <Cxx> [Cxx...] : apply a patch in a scratch worktree (not /repo), run checks, remove.
P=$(readlink -f "$1"); shift
wt=$(mktemp -d -p /var/tmp wm-XXXXXX); rmdir $wt
git -C /repo worktree add -q --detach $wt HEAD || exit 2
git -C $wt apply "$P" || { echo "patch does not apply"; git -C /repo worktree remove --force $wt; exit 2; }
cp /repo/traits/version.py $wt/traits/version.py 2>/dev/null
ev=$(mktemp -d -p /var/tmp wmev-XXXXXX)
for c in "$@"; do
  out=$(cd /verif && VERIF_REPO=$wt VERIF_EVIDENCE_DIR=$ev VERIF_REPLAY_DIR=$ev ./check $c --tier ${TIER:-quick} ${ONLY:+--only $ONLY} 2>&1); rc=$?
  echo "WM $c rc=$rc $(echo "$out" | grep -c '^VIOLATION') violation line(s)"; echo "$out" | grep -A1 '^VIOLATION' | head -${SHOW:-4} | cut -c1-240
done
rm -rf $ev; git -C /repo worktree remove --force $wt; git -C /repo worktree prune
