#!/bin/sh
# quick_mutant.sh '<python expr transforming s>' <file> <Cxx> [Cxx...]  : ad-hoc mutant in a scratch worktree
expr=$1; file=$2; shift; shift
wt=$(mktemp -d -p /var/tmp qm-XXXXXX); rmdir $wt
git -C /repo worktree add -q --detach $wt HEAD || exit 2
python3 - "$wt/$file" "$expr" <<'PY'
import sys
p, expr = sys.argv[1], sys.argv[2]
s = open(p).read()
t = eval(expr, {"s": s})
assert t != s, "mutation did not change the file"
open(p, "w").write(t)
PY
[ $? = 0 ] || { git -C /repo worktree remove --force $wt; exit 2; }
git -C $wt diff --stat | tail -1
ev=$(mktemp -d -p /var/tmp qmev-XXXXXX)
for c in "$@"; do
  out=$(cd /verif && VERIF_REPO=$wt VERIF_EVIDENCE_DIR=$ev VERIF_REPLAY_DIR=$ev ./check $c --tier ${TIER:-quick} 2>&1); rc=$?
  echo "QM $c rc=$rc $(echo "$out" | grep -c '^VIOLATION') violation line(s)"; echo "$out" | grep -A1 '^VIOLATION' | head -4 | cut -c1-220
done
rm -rf $ev; git -C /repo worktree remove --force $wt
