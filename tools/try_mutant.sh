#!/bin/sh
# try_mutant.sh <patch.diff> <Cxx> [more Cxx...]  : apply to /repo, run quick checks, revert.
P=$1; shift
cd /repo || exit 2
if [ -n "$(git status --porcelain --untracked-files=no)" ]; then echo "/repo not clean"; exit 2; fi
git apply "$P" || { echo "patch does not apply"; exit 2; }
for c in "$@"; do
  out=$(cd /verif && ./check $c --tier ${TIER:-quick} 2>&1); rc=$?
  echo "TRY $P $c rc=$rc $(echo "$out" | grep -c '^VIOLATION') violation line(s)"
  echo "$out" | grep -A1 '^VIOLATION' | head -${SHOW:-6}
done
git checkout -q -- .
rm -rf /verif/replays/*
