"""Source of truth for MANIFEST.json (see gen_manifest.py)."""

BASELINE_CMD = ("cd /repo && /venv/bin/python -m pytest -ra -q -p no:cacheprovider "
                "--timeout=900 --continue-on-collection-errors")

HOOKS = {
    "guard": "ENTHOUGHT_TRAITS_VERIF",
    "enable": "no hooks are needed: checks import the Python sources from /repo's "
              "working tree and rebuild traits/ctraits.c out of tree (mc/build.py); "
              "the guard variable is reserved and currently unused",
    "baseline_off_cmd": BASELINE_CMD,
    "source_commits": [],
    "add_only": True,
}

NOTES = ("All checks: ./check <id> --tier quick|thorough. Exit 0 held / 1 VIOLATION / "
         "2 harness problem (vacuous exploration, build failure). Known genuine "
         "defects are listed in KNOWN_FINDINGS.txt and printed as KNOWN-FINDING lines.")

MC = "bounded exhaustive explicit-state exploration of the real implementation against a reference model"

CHECKS = {
    "C05": {
        "category": "model_checking",
        "technique": MC + " (all states x all operations, lock-step with built-in list, event replay law)",
        "text": "Every TraitList content up to the length bound (distinct items, all duplicate "
                "patterns and permutations <=4) x every mutator with every index, slice and "
                "payload in range is executed on the real class and on a built-in list; "
                "contents, return value, exception class, failure atomicity and the event "
                "replay/normal-form law are checked on each; depth-2 sequences validate the "
                "one-step-induction argument.",
        "note": "bounded: lengths <=6 (quick) / <=9 (thorough), int/str items, pure validators; "
                "trusted base: CPython list, the 60-line reference model in props/c05_list.py",
    },
}

NOT_CLAIMED = {}
