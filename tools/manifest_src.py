"""Source of truth for MANIFEST.json (see gen_manifest.py)."""

BASELINE_CMD = ("cd /repo && /venv/bin/python -m pytest -ra -q -p no:cacheprovider "
                "--timeout=900 --continue-on-collection-errors")

HOOKS = {
    "guard": "ENTHOUGHT_TRAITS_VERIF",
    "enable": "no hooks are needed: checks import the Python sources from /repo's "
              "working tree and rebuild traits/ctraits.c out of tree (mc/build.py); "
              "the guard variable is reserved and currently unused",
    "baseline_off_cmd": BASELINE_CMD,
    "source_commits": [],
    "add_only": True,
}

NOTES = ("All checks: ./check <id> --tier quick|thorough. Exit 0 held / 1 VIOLATION / "
         "2 harness problem (vacuous exploration, build failure). Known genuine "
         "defects are listed in KNOWN_FINDINGS.txt and printed as KNOWN-FINDING lines.")

MC = "bounded exhaustive explicit-state exploration of the real implementation against a reference model"

CHECKS = {
    "C05": {
        "category": "model_checking",
        "technique": MC + " (all states x all operations, lock-step with built-in list, event replay law)",
        "text": "Every TraitList content up to the length bound (distinct items, all duplicate "
                "patterns and permutations <=4) x every mutator with every index, slice and "
                "payload in range is executed on the real class and on a built-in list; "
                "contents, return value, exception class, failure atomicity and the event "
                "replay/normal-form law are checked on each; depth-2 sequences validate the "
                "one-step-induction argument.",
        "note": "bounded: lengths <=6 (quick) / <=9 (thorough), int/str items, pure validators; "
                "trusted base: CPython list, the 60-line reference model in props/c05_list.py",
    },
}
CHECKS["C06"] = {
    "category": "model_checking",
    "technique": MC + " (all states x all operations, lock-step with built-in dict, delta reconstruction law)",
    "text": "Every ordered dict state over a 3-key alphabet (two keys colliding under coercion) x every "
            "mutator with every key/value/argument shape (mapping, pairs, iterator, TraitDict, duplicates, "
            "malformed arguments) runs on the real TraitDict (custom validators) and on a Dict(CInt,Str) trait "
            "value carrying an _items handler, an observe('d.items') handler and a raw notifier placed after "
            "the observer; contents, order, return value, exception class, failure atomicity, the "
            "added/changed/removed reconstruction law and the documented DictChangeEvent merge are checked; "
            "depth-2 sequences validate the one-step argument.",
    "note": "bounded: 3 keys x 2 values, update arguments of size <=2 (quick) / <=3 (thorough); kwargs form of "
            "update excluded (not supported by TraitDict's signature); trusted base: CPython dict, reference "
            "model in props/c06_dict.py",
}
CHECKS["C07"] = {
    "category": "model_checking",
    "technique": MC + " (all states x all operations, lock-step with built-in set, delta law, copy liveness)",
    "text": "Every subset state x all 14 mutators x every argument subset in set/frozenset/list/iterator form "
            "(plus non-iterable, unhashable and failing-second-argument probes) on the real TraitSet and on a "
            "Set(CInt) trait value with _items, observe and raw notifiers; lock-step with built-in set (both "
            "the validated-membership and raw-membership readings accepted), failure atomicity, exactly-one "
            "event with removed subset / added disjoint / reconstruction; in every state every copy operation "
            "(copy, deepcopy, pickle 0-5) must give an equal, independent set that still rejects invalid and "
            "converts convertible items.",
    "note": "bounded: 3-4 item states, 4-5 item argument alphabet; standalone copy.copy/pickle of a "
            "TraitSetObject detached from its owner is out of scope (owner-level copies are checked, and C14 "
            "covers them in depth); trusted base: CPython set, reference model in props/c07_set.py",
}
CHECKS["C04"] = {
    "category": "model_checking",
    "technique": MC + " (all states x all mutators x valid/convertible/invalid payloads, independent re-validation walk)",
    "text": "Twelve container trait configurations (List(Int), List(Int,1..3), List(CInt,maxlen=2), List(Instance), "
            "List(List(Int,maxlen=2),maxlen=2), Dict(Str,Int), Dict(CStr,List(Int)), Set(Int), Set(CInt), a List with items=False, a List reached through PrototypedFrom, a List re-declared on a subclass of a class that had it as a Property): every "
            "contents state up to the bound, installed by whole-value assignment, x every mutator with every "
            "index/slice and payloads carrying an invalid item at every position, on the outer container, on a "
            "nested inner container and by re-assignment; after each operation an independent walk re-validates "
            "every element (exact stored type) and the length bounds, refused operations must raise, leave "
            "element identities untouched and call none of the static/_items, on_trait_change and observe "
            "handlers; accepted ones must equal the reference model; depth-2 sequences reach states through "
            "mutators instead of assignment.",
    "note": "bounded: list length <=3 (quick) / <=4 (thorough), 2 valid + 1 convertible + 2 invalid item values per "
            "inner trait; trusted base: the per-trait membership predicates in props/c04_containers.py",
}
CHECKS["C01"] = {
    "category": "exploration",
    "technique": "bounded exhaustive enumeration of (trait configuration x value lattice x assignment route x pre-state) against independent domain predicates",
    "text": "About 2300 trait configurations (all scalar/cast types, every open/closed/half-bounded int and float "
            "Range shape incl. dynamic named bounds that are moved between assignments, String length/regex grid, Enum, Tuple nestings, Instance/Type/"
            "Supports/AdaptsTo with allow_none and adapt modes, also by class name and as clone()d definitions, Callable, PrefixList/PrefixMap/Map, dates, Array "
            "dtype/shape/casting grid, File/Directory, and every ordered pair of 30 member traits as Either and as "
            "Union) x a 150-value lattice (boundary floats, NaN/inf, huge ints, subclasses, numpy scalars/arrays, "
            "objects whose __index__/__float__/__complex__ succeed, return wrong types or raise) x setattr / "
            "constructor / trait_set / trait_setq x fresh / previously-stored pre-state: the value read back must satisfy an "
            "independently written in-domain predicate and (where documented) the acceptance and conversion model; "
            "a rejection must be a TraitError naming the attribute with a bit-identical __dict__; other exceptions "
            "only from the value's own protocol.",
    "note": "finite lattice and grid (not all Python values); acceptance model left open where the documentation is "
            "silent; trusted base: predicates in props/lattice.py",
}
CHECKS["C03"] = {
    "category": "exploration",
    "technique": "bounded exhaustive differential enumeration: compiled validator vs Python validator vs first accepting alternative, over configuration grid x value lattice",
    "text": "Every grid configuration carrying a fast-validation descriptor (all scalar/cast types, every Range "
            "shape, Enum, Map, Tuple, Instance/Type/Supports/AdaptsTo x allow_none x adapt, This, Callable, Module, "
            "every ordered pair of 29 members as Either and Union, triples, a nested compound with slow members on "
            "both levels) x the 150-value lattice: CTrait.validate (compiled) and handler.validate (Python) must "
            "accept the same values with equal results of the same exact type and Python TraitError implies "
            "compiled TraitError; a compound must give exactly what its first accepting alternative gives alone "
            "(documented evaluation order); the same member used as a Tuple member and as a List item must decide "
            "as it does alone.",
    "note": "finite lattice; types without a Python-level validate (Module) have nothing to compare with; "
            "Instance(adapt='default') is kept out of compounds (the 'default' it falls back to is ambiguous "
            "there); where the Python method lets a foreign protocol exception escape only non-acceptance is "
            "required of the compiled path",
}
CHECKS["C02"] = {
    "category": "model_checking",
    "technique": MC + " (history BFS with canonical-state dedup; oracle counts_as_change(mode, old, new) on stored objects)",
    "text": "For 13 trait kinds (Any, Int, Str, Float, List, Instance, AdaptsTo, Supports, Expression, Event, "
            "Event(Int), an Event and an Int reached through PrototypedFrom) x comparison modes none/identity/equality x 12 'which handler raises' variants: every "
            "history up to depth 4 (6 thorough) of assignments from a pool (equal-but-not-identical objects, two NaN "
            "objects, a value whose == raises, values whose repr raises, converted and rejected values) and default reads; after each step "
            "all eleven handlers (static _x_changed in the class and _x_fired inherited from a base class, "
            "_anytrait_changed, two on_trait_change, two observe, on_trait_change and observe with ui dispatch, "
            "@on_trait_change- and @observe-decorated methods; assignments by attribute, by trait_set and (calling nobody) by trait_setq, from the main thread and from a worker thread with a queueing UI handler) must have "
            "been called exactly once iff the statement's rule counts the step as a change, with old the object "
            "stored before and new the object stored after; nothing for rejected assignments and default reads; "
            "Events always with old Undefined; a raising handler changes nothing for the others.",
    "note": "dispatch same and ui; depth bound 4/6 with dedup on (stored object, default materialised) which is the "
            "whole state because registrations are fixed per configuration; for == raising only agreement between "
            "mechanisms is required",
}
CHECKS["C08"] = {
    "category": "model_checking",
    "technique": MC + " (history BFS over graph mutations with canonical graph+notifier-fingerprint dedup; reachability interpreter as oracle; probe of every object after every history)",
    "text": "24 observe expressions (series, '.'/':' links, list/dict/set items, nested containers, parallel branches, "
            "lazy default, metadata filter as last link, as intermediate link and over containers, nested lists, "
            "anytrait, container-change targets, re-definition of an observed trait by add_trait, deletion of an observed link) on "
            "a pool of 3 interlinked objects, the link expressions also on node classes whose __eq__ makes all nodes equal or raises for foreign operands: every history up to depth 4 (5 thorough) over the expression's event "
            "menu (link reassignment incl. self => cycles, every list mutator incl. duplicates, extended-slice "
            "delete, *=, equal and unequal whole-list reassignment, dict set/del, set add/discard, default "
            "materialisation, add_trait), registration before or after the history; the step itself must deliver "
            "exactly the change event the documented semantics prescribe (none for ':' links) and afterwards "
            "changing each candidate trait of each object must call the handler exactly once iff a from-scratch "
            "interpreter of the expression over the live graph finds it reachable, with event.object/name "
            "identifying what changed.",
    "note": "dispatch='same'; pool of 3 (+ lazy defaults); depth 4/5; dedup key = graph shape + (kind, ref-count) of "
            "every notifier on every object, trait and container, so merged states have equal hook state",
}
CHECKS["C09"] = {
    "category": "model_checking",
    "technique": MC + " (history BFS with dedup on counters+graph+notifier fingerprint; injected failing registrations; explicit GC events)",
    "text": "Every history up to depth 3 (4 thorough) over ~54 events, on plain nodes, on nodes that all compare equal "
            "and on falsy nodes: add/remove of 15 (handler, expression, dispatch, root) registrations (function and "
            "bound method, 4 expressions, same/ui, two roots), 9 graph mutations, 10 "
            "registrations that fail at different positions of the walk (child, grandchild, k-th list item, second "
            "parallel branch, second expression of a list, non-container where a container is required), 3 failing "
            "removals, garbage collection of the bound method's owner and of an observed object. After every "
            "history: a change calls each handler once per distinct dispatcher whose registration count is >0 and "
            "reaches the object (reachability interpreter); removal at count 0 raises NotifierNotFound; when all "
            "counts are 0 no observer notifier is left anywhere; every raising registration/removal leaves the "
            "whole-pool notifier fingerprint (kind, ref-count per object/trait incl. trait_added/container) identical; weak "
            "references to collected owner/object are dead and later changes neither raise nor call.",
    "note": "main-thread dispatch; 3-object pool, 2 handlers; depth 3/4",
}
CHECKS["C12"] = {
    "category": "model_checking",
    "technique": MC + " (history BFS with dedup on graph+values+cache contents+notifier fingerprint; independent recomputation as oracle)",
    "text": "Nine observed properties (cached and uncached, scalar, Instance link, list/dict/set items, nested "
            "path, a cached property with a setter, a subclass overriding an inherited plain getter with a cached one, one whose only listener is an anytrait "
            "handler) on a pool of 3 objects; every "
            "history up to depth 3 (4 thorough) over ~55 events: dependency mutations incl. duplicates/sharing/"
            "whole-list assignment with duplicates, scalar changes on every object, explicit cache-filling reads, "
            "static handlers that read cached properties, and pickle / deepcopy / clone_traits / copy_traits of the pool at any "
            "point. At the end of every history each property is read twice: first read must equal an independent "
            "recomputation, second must not run a cached getter again, a getter never runs twice for one read; a "
            "last step that alters a recomputed value must reach the on_trait_change and the observe handler with "
            "new equal to the recomputed value.",
    "note": "Property(observe=...) only; depth 3/4; intermediate steps deliberately do not read, so caches filled "
            "by explicit read events can go stale if invalidation is missed",
}
CHECKS["C16"] = {
    "category": "model_checking",
    "technique": MC + " (history BFS on tree-shaped graphs with dedup; reachability interpreter + differential agreement legacy vs observe)",
    "text": "Seven (legacy extended name, observe expression) pairs, each on plain nodes, on all-equal nodes and with "
            "only two bound-method handlers, ('.'/':' links, two-level chains, list and dict "
            "container links, nested) registered through both APIs on the same root; every history up to depth 4 (5 "
            "thorough) over tree-preserving mutations of the first three objects (fresh object at every insertion: "
            "child reassignment, list append/insert/pop/del/slice/whole-value/reverse/member-reusing reassignment, "
            "dict set/del/update replacing and inserting at once), collection of a bound-method owner, removal of an "
            "unrelated registration under another name and removal of the registration; after every history the final attribute of every object ever created is written; a second world declares the handlers with the @on_trait_change/@observe decorators and adds deepcopy/clone_traits events with the history continuing on the copy; one cell per name style registers with dispatch='ui' and mutates from a worker thread: the "
            "legacy handler must be called exactly once iff the object is currently reachable along the name "
            "(interpreter) and the observe handler must agree; link reassignments must be reported for '.' links "
            "and never for ':' links; after removal nothing is called.",
    "note": "tree-shaped graphs only (statement); 4-argument handler; in-place container mutation along a '.' link "
            "is not constrained for the legacy handler; depth 4/5",
}
CHECKS["C10"] = {
    "category": "model_checking",
    "technique": MC + " (history BFS with fresh class hierarchy per execution and dedup on instance state; pristine-baseline differential + identity walk)",
    "text": "Class with one trait per default kind (constant, Any list/dict copy, List/Dict/Set, Instance factory, "
            "_name_default method, Tuple with container member before/after a constant member, Union with container "
            "member, Array, Any(factory=...), one trait definition object shared by three attributes and a second class, a Map with a default method, a property-style TraitType built on get_value/set_value, a dynamic Enum(values=name) with a default method) and a subclass overriding four defaults, rebuilt for every execution. "
            "Every history up to depth 3 over ~115 operations on one instance (read, in-place mutation of the "
            "default container, assign, del, on_trait_change/observe add+remove, add_trait same/new name, "
            "remove_trait, trait_set, reset_traits, traits()/trait_get()/trait_names()/clone_traits() calls, copy_traits from and to a sibling) for an "
            "acting instance of the base or of the subclass. First reads must return the declared default, call no "
            "handler and return the identical object on the second read; a default reported to handlers on del must "
            "be the object read afterwards; _name_default runs at most once per unassigned period. After every "
            "history sibling instances of both classes created before and after must read pristine defaults "
            "silently, share no mutable container with anybody (identity walk incl. nested), and both classes' trait "
            "tables, trait names and class-level defaults must be unchanged.",
    "note": "depth 2 exhaustive + depth 3 from the deduplicated frontier over a sub-menu (quick) / full menu "
            "(thorough); known finding: subclass override of an Any literal default is shared (upstream #1630)",
}
CHECKS["C11"] = {
    "category": "model_checking",
    "technique": MC + " (history BFS with dedup on the reference model state; two-dict model of delegation/prototyping)",
    "text": "DelegatesTo and PrototypedFrom in five prefix styles (same name, explicit name, 'prefix*', one-character '_*', '*' with "
            "__prefix__), a listenable=False attribute, a second prototype level, a strict (Disallow) target class, plus a three-level renaming chain; one deferring object, two candidate delegates; every "
            "history up to depth 3 (4 thorough; 5 and 6 for the two-attribute class and the chain) over ~75 events (valid/invalid assignment through the deferring "
            "object, assignment on either delegate, delegate swap, deletion with and without a local value). After every step "
            "all reads through both objects must equal a two-dict reference model, DelegatesTo writes must land in "
            "the delegate only, invalid writes must raise TraitError and change nothing, PrototypedFrom must break "
            "and restore the link, and on_trait_change/observe handlers of each deferring attribute must be called "
            "with the new value for target changes on the current delegate while linked and never for former "
            "delegates or broken links.",
    "note": "notification on delegate swap unconstrained (statement silent); listenable=True",
}
CHECKS["C13"] = {
    "category": "model_checking",
    "technique": MC + " (history BFS with fresh class hierarchies per execution; independent resolver + twin-hierarchy differential + explicit policy clauses)",
    "text": "Three base kinds (HasTraits, HasStrictTraits, HasPrivateTraits) x 15 names (exact matches, names equal to "
            "a wildcard prefix, names matching one or two wildcard prefixes, private names, undeclared names) on a "
            "base class declaring Int/ReadOnly/Constant/Event and two wildcards a subclass declaring a longer "
            "wildcard and re-declaring one trait, and a multiple-inheritance subclass whose wildcards come from its "
            "second base only. Every history up to depth 3 (5 thorough) over get / set(int) / "
            "set(str) / set(None) / del / add_trait / a second add_trait without removal / add_trait of a List (whose _items companion must follow) / remove_trait / reads and writes of the _items companion / add_class_trait of a wildcard on the base on an "
            "instance of each class, with *definition "
            "of the subclass* as an event. Each step must give the same outcome class and value as on a twin "
            "hierarchy in which the governing trait (per an independent resolver: instance trait > declared > "
            "longest wildcard > class default) is declared explicitly, and must satisfy the statement's policy "
            "clauses (strict: AttributeError/TraitError, ReadOnly exactly one defining assignment, Constant never "
            "written, Event written not read, private names untyped, remove_trait restores the class rule).",
    "note": "dunder names excluded (reserved by documented design); per-name histories (interactions between "
            "different names only through class-level caches, which the late-subclass event exercises); known "
            "finding: wildcard trait cached in the base class before a subclass is defined",
}
CHECKS["C20"] = {
    "category": "model_checking",
    "technique": MC + " (history BFS with dedup on values+link graph+liveness; directed link graph with transitive propagation as reference; explicit GC events; internal handler exceptions captured)",
    "text": "Three objects with two Int and three List(Int) traits (one with a default method) and a Property whose setter refuses one value with "
            "ValueError; every history up to depth 3 (4 thorough) over ~100 "
            "events: sync/unsync in 9 styles (mutual, one-way, alias, second partner; scalar and list), scalar "
            "assignments on every side, 15 list mutators on four lists (incl. extended-slice set/delete with positive "
            "and negative step, +=, *=, sort, reverse, clear, whole-value), del of a synchronised attribute, garbage collection of a partner. After "
            "each step everything reachable along link direction from the changed attribute must equal it, "
            "everything else must be untouched (one-way reverse direction, former partners, after unsync/GC), no "
            "handler is called twice for one change, nothing is raised to the caller or inside the library's own "
            "synchronisation handlers (captured through a recording exception handler), no RecursionError, lock "
            "entries never stay set and the sync tables are back to baseline when no link is left.",
    "note": "Dict/Set items documented as not synchronised; 3 objects; a one-way target that diverged on its own is "
            "not constrained by later in-place mutations of the source (statement only fixes assignments there)",
}
CHECKS["C14"] = {
    "category": "model_checking",
    "technique": MC + " (history BFS to reach object states, then every copy operation + fixed liveness suite; differential round-trip of trait definitions)",
    "text": "Part A: an object with List/List(List)/Dict(Str,List)/Set/Dict keyed by objects, an Instance graph with "
            "sharing, transient, ReadOnly, UUID(can_init), Map, copy='ref'/'shallow'/'deep' metadata, an observed "
            "cached Property, an @observe method, an @observe(post_init=True) method and a static items handler; every history up to depth 3 (4 "
            "thorough) over 26 events, then each of pickle protocols 0-5, deepcopy, clone_traits(), "
            "clone_traits('deep'), clone_traits('shallow'), and a copy of the copy: same class, equal non-transient state, transient at "
            "default, no mutable object (container or node, incl. dict keys) shared with the original, inited flag "
            "kept, and a liveness suite on the copy (13 invalid insertions/assignments into every nested container "
            "must raise TraitError, one valid append must call the copy's items handler and @observe method once and "
            "not the original's, property recomputes, write-once stays written, shadow value follows) leaving the "
            "original untouched. Part B: the CTrait of ~60 definition kinds (shared grid + plain/validated/read-only "
            "Property, Delegate, Event, Event(Int), Constant, ReadOnly, Any) x pickle 0-5 / copy / deepcopy, then "
            "installed with add_trait next to the original and driven by the same 38-step get/set/del script: "
            "identical outcome traces, default and metadata.",
    "note": "user __getstate__ overrides and pre-3.0 pickles out of scope; five known findings (objects with "
            "ReadOnly(default)/UUID() cannot be unpickled; ReadOnly/Module/dynamic-Range definitions cannot be "
            "pickled)",
}
CHECKS["C15"] = {
    "category": "exploration",
    "technique": "bounded exhaustive enumeration of grammar derivations and of raw strings against an independent recogniser + denotation",
    "text": "(i) every derivation of the documented grammar with up to 9 (11 thorough) tokens over names a/b/items, "
            "+metadata, *, '.', ':', ',', brackets; each must be accepted by parse/compile and the compiled "
            "ObserverGraphs, flattened to the set of observed paths (node kind, name, notify, optional), must equal "
            "the denotation computed by an independent recursive-descent recogniser written from the manual's tables "
            "(notify iff last or followed by '.', 'items' = trait named items / dict / list / set items, all "
            "optional; '*' only in terminal position incl. inside terminal brackets); parsing twice must give equal "
            "patterns; compile_str must decide and compile exactly as parse + compile do; four equivalent spellings (spaces, newlines, outer brackets, double brackets) must compile to "
            "equal patterns and removal by one spelling must exactly undo registration by another (notifier "
            "fingerprint back to baseline). (ii) every string of up to 5 (6) symbols over a 13-symbol alphabet "
            "(incl. space, newline, a digit): accepted iff the recogniser accepts, same meaning; otherwise "
            "ValueError and nothing else.",
    "note": "three representative names; known finding: '*' inside terminal brackets is rejected contrary to the "
            "manual",
}
CHECKS["C17"] = {
    "category": "exploration",
    "technique": "bounded exhaustive enumeration of offer sequences x source x target against a brute-force chain search",
    "text": "Six type universes (linear 3-level hierarchy + intermediates, diamond with multiple inheritance, ABCs "
            "with virtual registration, a target whose instances are falsy, two chains of different length branching from one source, ABC registration after the first query): every sequence (multiset in every "
            "registration order, duplicates and cycles included) of up to 3 offers (linear) / 2 (others) (+1 "
            "thorough) over all ordered type pairs x {adapter, conditional factory returning None, conditional factory refusing the bare source}, for every source "
            "type and target, on a fresh AdaptationManager: adapt returns the object itself when it provides the "
            "protocol; otherwise an adapter iff a brute-force search finds a chain of distinct applicable offers "
            "whose factories all succeed, else AdaptationError / the supplied default; the chain actually used "
            "(recorded by instrumented factories) is one of the valid chains, has minimum length, and no "
            "single-step offer for a base type is used when one for its subclass would do. For all sequences of up "
            "to 2 offers Supports, AdaptsTo, Instance(adapt='yes'), BaseInstance(adapt='yes'), Either(Str, Supports), Either(Supports, Str) and List(Supports) assignment of the source object and of int-like non-adaptable values (global "
            "manager swapped in) must give the same verdict, stored value and shadow value, AdaptsTo reached through PrototypedFrom must store the original, and re-assigning the "
            "same object after a new offer was registered must refresh the AdaptsTo shadow.",
    "note": "<=3/4 offers; factories without side effects or adaptee-dependent conditions; ties between unrelated "
            "source types are free",
}
CHECKS["C19"] = {
    "category": "model_checking",
    "technique": "exhaustive single-fault enumeration: every user-callback invocation of every scenario raises each of 4 exception classes on freshly rebuilt objects; pre-state / fault-free-twin comparison",
    "text": "53 operations with user callbacks (custom TraitType.validate on assignment, trait_set, trait_setq, "
            "quiet trait_set and constructor; second alternative of a Union; _name_default and factory defaults on "
            "read and on del; property getter, setter, validator and cached getter; List/Dict/Set item, key and value "
            "validators at every item of append/extend/insert/slice/+=/update/|=/^=/setdefault/whole-value "
            "assignment, on trait values and on raw TraitList/TraitDict/TraitSet; adapter factories 1..3 of a chain; "
            "filter callables of match() during observe registration and removal, alone and as the second of two "
            "parallel graphs; a failing handler combined with a value whose repr raises; static, on_trait_change, observe "
            "and items change handlers) x 2 pre-states. A fault-free run counts the callback invocations n; for every "
            "k<=n and each of TraitError/ValueError/AttributeError/RuntimeError the k-th invocation raises. "
            "Outcome-deciding callbacks: the caller gets the injected exception object or a TraitError, the full "
            "snapshot (values by identity, container contents, notifier fingerprint, caches, raw containers) equals "
            "the pre-state, no handler was called, and a 20-step follow-up suite (starting with reads of the cached properties) behaves as on an object that never "
            "saw the operation. Change handlers: the operation completes, state and every other handler's log equal "
            "the fault-free run, follow-up equals the fault-free twin.",
    "note": "one fault per operation; post_setattr not in the statement's callback list; single keyword for "
            "trait_set/constructor",
}
CHECKS["C18"] = {
    "category": "fault_enumeration",
    "technique": "bounded exhaustive exploration re-executed on an AddressSanitizer+UBSan build of ctraits.c, plus reference-count drift enumeration over an operation x outcome menu",
    "text": "Against a clang -fsanitize=address,undefined build of traits/ctraits.c (rebuilt from the working tree, "
            "loaded under the stock interpreter with the ASan runtime preloaded): (i) about one shard in six (one in "
            "two thorough) of the drivers of C01-C04, C08-C14, C16, C17, C19, C20 at their quick bounds, i.e. all "
            "operation families incl. every C19 fault position, C14 trait-definition pickle/copy round trips of ~60 "
            "definition kinds and explicit GC events; any sanitizer report, signal or SystemError kills the worker "
            "and is reported with the journalled case. (ii) a 66-cell reference-neutrality menu (success and every "
            "error exit of set/get/del for every validator kind, properties whose getter/setter raise, failing "
            "defaults, delegates without delegate / with invalid values / prefixes, str-subclass and non-str names, "
            "handlers added, removed or raising during dispatch, an earlier anytrait handler removing a later one, "
            "del with a failing default under a notifier, add/remove_trait, CTrait clone/getstate/pickle/set_validate/"
            "set_default_value with good and rejected arguments, object round trips): each cell runs 3+24 times with "
            "sentinel objects and sys.getrefcount of the sentinel value and of the object must not drift.",
    "note": "a sanitizer only sees executed paths; allocation-failure paths and crafted __setstate__ tuples are out; "
            "trusted base: clang 14 ASan/UBSan runtime",
}

#: sentences appended to the texts above (extensions made after the third
#: and fourth detection waves)
EXTRA = {
    "C01": " The trait is also assigned through a PrototypedFrom attribute; legacy mapped compounds "
           "(Trait('yes', {...}, List)) are in the grid; the whole lattice is assigned a second time in "
           "reverse order on the same trait definition and must give the same verdicts and stored results "
           "(history independence)."
           ' Seventh wave: the legacy handler classes behind Trait(...) (coercing, casting, instance by class and by name, enumeration, compounds of them), validated Property(trait) attributes with a setter, tuple-subclass and byte-swapped array values.'
           ' The moved-bound pass distinguishes excluded bounds (known finding).',
    "C02": " One-off exhaustive cells: names governed by one wildcard declaration with static handlers "
           "(all histories up to length 3 over 3 names x 2 values on two instances); two instances carrying "
           "a same-named instance trait with different comparison modes. The last bulk route is part of the "
           "state key (trait_setq switches a hidden per-object mode). Values include numpy arrays (a != without a truth value); @observe methods carrying a magic name."
           ' Cells for listener objects attached with add_trait_listener (their _name_changed / _name_fired / _anytrait_changed methods, with and without a prefix).',
    "C03": " Validation must leave the caller's own tuple alone; cells with a Map whose mapping is changed "
           "after the trait was defined."
           ' Legacy handler classes behind Trait(...) are compared like the trait types (their compiled descriptor against their own Python validate), including a by-name TraitInstance alone, in a compound and as a Tuple member; tuple subclasses are among the values.',
    "C04": " Owners are collection-like (falsy while the container is empty); whole-value assignment also "
           "with a detached deep copy of the trait's own value as carrier of the items. Further configurations: Undefined as invalid item, a user trait type raising message-only TraitErrors, equal length bounds; cells for two-deep containers of a class given by name, defaults of length-bounded lists, one definition shared by two attributes."
           ' Cells for the legacy declaration Trait(default, container trait) on a class and through add_trait: the never-assigned default is as guarded as any assigned value.',
    "C05": " Right-hand sides include the list itself and replacements by equal values of another type "
           "(change = another value or type at some position); a bare mode has no notifier at all; the "
           "owner is falsy while its list is empty. An owner mode on a List trait with length bounds 1..4."
           ' Further owner modes: the list kept behind a validated Property(List) (reached through the getter only) and a strict class whose attribute is Union(None, List) with a by-name items handler attached first; keys that only implement __index__; sorts whose comparisons fail half-way (a re-ordering must be announced).',
    "C06": " A bare mode has no notifier at all; the owner is falsy while its dict is empty. A user subclass with __missing__."
           " A second owner mode stores the library's Undefined and None as values.",
    "C07": " A bare mode has no notifier at all; the owner is falsy while its set is empty; the trait value "
           "itself is shallow-copied too."
           ' Cells for sets whose members are frozensets and for set-valued lookup arguments (remove, discard, in), lock-step with the built-in.',
    "C08": " One-off exhaustive cells: a change handler (the observe handler itself, or an on_trait_change "
           "handler registered before / after the observer) re-assigns the observed link while the "
           "assignment is being dispatched (all start/new/replacement combinations over the pool); an "
           "observable constant default (Any(obj)) is one of the expressions. Cells for wildcard-governed attributes coming into being under an observer."
           " Links that are cached properties (root level, registered before the history; values are followed through the property's change events); the wildcard cells add a second, unobserved instance of the class."
           ' Cells: a wildcard name first used on a sibling instance (known finding); a lazily created default of a class lacking the observed trait.',
    "C10": " A dynamic Range whose number type follows the instance's bounds is among the default kinds "
           "(floats are compared typed). A cell for a default whose announcement fails."
           " A default named by another trait (dynamic Range value='dv'): a never-assigned attribute keeps the default it was first read with; small groups of interdependent traits are explored one level deeper; the model's record of first reads is part of the state key."
           ' A Union with an explicit mutable default is among the default kinds.',
    "C11": " A variant attaches and detaches the deferring attribute's handlers during the history; a "
           "history ending in a refused write is kept apart from the unchanged state. Kinds with a Property-valued delegate / prototype attribute; all instances are of a subclass that adds nothing."
           ' Two more worlds defer onto List / Dict / Set / Event(Int) targets (in-place mutation on either side, whole-value assignment, validated payloads: handlers of the deferring attribute only ever see values); a target declared by a wildcard only; introspection calls (base_trait, trait, validate_trait, traits, trait_get) are events and must change nothing.'
           ' The legacy Delegate() spelling with positional options is among the attributes.'
           ' Cells for an attribute assigned in a subclass constructor before the base constructor runs.',
    "C12": " Also a cached property whose value is None most of the time and a dependency holding values "
           "whose == raises AttributeError. A property observed through another property."
           " A subclass's cached getter that builds on the inherited cached getter (nested fill of one cache slot).",
    "C13": " One-off cells: a trait_added listener adds an instance trait for the very name whose first "
           "access announced it (that access is already governed by the instance trait); the _items "
           "companion of a removed List instance trait is compared with a control instance that never had "
           "one. The instance-trait tables are part of the state key. Mapped instance traits and their shadow names."
           ' Instance traits without a handler object (untyped Property) and the result of remove_trait are checked explicitly.'
           ' The base class may gain a mapped trait at run time (its shadow must not govern longer names).',
    "C14": " A trait nobody read before the copy, with a default that differs per computation, must read "
           "the same on original and copy; round-tripped definitions are also driven through base_trait, "
           "validate_trait and clone_traits. A prototyped attribute declared before its prototype holder; a list that may not be empty."
           ' Object-valued prototyped attributes with local overrides must not be shared with the copy; definition scripts read the shadow value after every assignment and use values that need adapting.'
           ' Cells: one object that is a trait value and a set / list member stays one object in the copy; a clone taken during construction is initialised.',
    "C16": " One-off cells: a list of extended names registered and removed in every grouping and order "
           "(5 x 5 forms). Cells for Dict links with trait names ending in letters of '_items', for a removal naming an unregistered handler, for handler signatures with 0..4 arguments."
           " Cells: a re-assigned '.' link is reported to handlers of every signature where observe reports it (from None and from an object), names with blanks around them, one handler under two names sharing a link with one registration removed."
           " Cells for decorator-declared registrations (removal by name, bracket group before ':', plain override in a subclass) against an @observe twin.",
    "C17": " Late registration also of a class with the protocol an offer adapts from."
           ' A universe with a mixin in front of the hierarchy plus a virtual base (three single-step candidates).',
    "C18": " Two further cells: a default replaced by post_setattr during the first read; an "
           "AttributeError in a default method with warnings turned into errors. Cells for malformed factory arguments, star-prefix delegates with str-subclass names, a tuple whose later member raises, property_fields of round-tripped property definitions."
           ' Cell for a delegate that is a temporary object handed out by a property (write-through Delegate).',
    "C19": " A fifth injected exception is a RuntimeError whose first argument is not a string. Cells for nested containment policies (every push/pop nesting up to depth 3, both handler systems)."
           ' Registrations under extended names (on_trait_change and observe) are faulted operations too.',
    "C09": " One-off cells: registrations removed or added by a handler while it is being called (4 expressions x 5 actions x 1..2 registrations); anytrait observers with traits appearing later; lifetime (a closure cycle through the notifier list, a handler raising to the caller)."
           " Cells for the function-level observe() with the caller's own dispatcher (bound method, callable instance, partial; counts 1-3 x three expressions), for a link that is a Property, and `del` of an observed link as a graph event."
           ' An expression that is a prefix of another one is in the registration alphabet; cells for container observers that remove themselves while called.',
    "C20": " One-off exhaustive cells: y derived from x by a change handler on one object with x and y "
           "linked in all 15 style combinations (all histories up to length 2 / 3 over 12 assignments); the "
           "style of a link changed by a second sync_trait call without removal. A history ending in a "
           "refused push is kept apart from the unchanged state; thorough uses the reduced menu at its "
           "last level. A list trait whose name contains '_items'."
           ' Cells in which a partner is collected while a change is being propagated.'
           ' The value a partner refuses is also in the last level of the quick menu.',
}
for _k, _v in EXTRA.items():
    CHECKS[_k]["text"] += _v

NOT_CLAIMED = {}
