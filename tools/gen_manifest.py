#!/usr/bin/env python3
"""Regenerate MANIFEST.json from tools/manifest_src.py (single source of truth)."""
import json
import os
import sys

HERE = os.path.dirname(os.path.abspath(__file__))
VERIF = os.path.dirname(HERE)
sys.path.insert(0, HERE)
import manifest_src as src  # noqa: E402

ALL = ["C%02d" % i for i in range(1, 21)]


def main():
    checks = []
    for pid in ALL:
        c = src.CHECKS.get(pid)
        if not c:
            continue
        checks.append({
            "property_id": pid,
            "quick_cmd": "./check %s --tier quick" % pid,
            "thorough_cmd": "./check %s --tier thorough" % pid,
            "evidence_file": "/verif/evidence/%s.json" % pid,
            "replay_cmd_template": "./check %s --replay {path}" % pid,
            "engine": "mc",
            "level_claimed": {"category": c["category"], "text": c["text"],
                              "design_ref": "DESIGN.md §5." + pid},
            "level_note": c["note"],
            "technique": c["technique"],
        })
    na = [{"property_id": pid, "reason": src.NOT_CLAIMED.get(
        pid, "check not built yet in this round; planned in DESIGN.md §5")}
        for pid in ALL if pid not in src.CHECKS]
    man = {
        "version": 1,
        "setup_cmd": "./setup.sh",
        "hooks": src.HOOKS,
        "engines": [{
            "name": "mc",
            "path": "/verif/mc",
            "serves_properties": [c["property_id"] for c in checks],
            "kind_free_text": "hand-written explicit-state / stateless "
            "bounded exhaustive explorer driving the real implementation "
            "(Python sources imported from /repo, ctraits.c rebuilt per run) "
            "in crash-contained worker processes, with reference models in "
            "plain Python",
        }],
        "checks": checks,
        "notes": src.NOTES,
        "not_applicable": na,
    }
    with open(os.path.join(VERIF, "MANIFEST.json"), "w") as f:
        json.dump(man, f, indent=1)
        f.write("\n")


if __name__ == "__main__":
    main()
