#!/usr/bin/env python3
"""thorough_summary.py <log>... : merge the summary lines of thorough runs
(tools/run_all.sh thorough, later logs win) into docs/thorough_summary.txt;
checks without a line in the given logs keep their previous line."""
import os
import re
import sys

VERIF = os.path.dirname(os.path.dirname(os.path.abspath(__file__)))
out = os.path.join(VERIF, "docs", "thorough_summary.txt")
lines = {}
if os.path.exists(out):
    for ln in open(out):
        m = re.match(r"(C\d\d) tier=thorough", ln)
        if m:
            lines[m.group(1)] = ln.rstrip("\n")
for path in sys.argv[1:]:
    rc = {}
    for ln in open(path, errors="replace"):
        m = re.match(r"== (C\d\d) tier=thorough rc=(\d+)", ln)
        if m:
            rc[m.group(1)] = int(m.group(2))
        m = re.match(r"(C\d\d) tier=thorough seed", ln)
        if m:
            lines[m.group(1)] = ln.rstrip("\n")[:400]
with open(out, "w") as f:
    for k in sorted(lines):
        f.write(lines[k] + "\n")
print("%d checks in %s" % (len(lines), out))
